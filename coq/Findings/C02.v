(* Witnesses for the known findings of C02: inputs on which two dialects give different answers (under the dialect
   semantics of Model/C01Sql.v: SQLite validated against the linked library, PostgreSQL / MySQL from documentation). *)
Require Import PonyV.Base.PyBase PonyV.Model.C01Expr PonyV.Model.C01Sql PonyV.Model.C01Translate PonyV.Model.C01Safe
               PonyV.Model.C01Eqb PonyV.Model.C01Query PonyV.Model.C02Render PonyV.Model.C01Aggr PonyV.Model.C01Order.

Definition ga := mkattr 1 TInt true.
Definition gb := mkattr 2 TInt true.
Definition gs := mkattr 4 TStr true.
Definition gf := mkattr 6 TBool true.
Definition grow (a b s f : pyv) : env :=
  mkenv (fun i => match i with 1%nat => a | 2%nat => b | 4%nat => s | 6%nat => f | _ => PNone end) (fun _ => PNone).
Definition value_on (d : dname) (en : env) (e : expr) : qv :=
  match tr_project d e with Some q => qeval d (encenv d en) q | None => ErrV end.
Definition kept_on (d : dname) (en : env) (e : expr) : option bool :=
  match tr_filter d e with Some c => Some (where_truth d (encenv d en) c) | None => None end.

(* p.a // 2 with a = 7: FLOORDIV is rendered ` / ` on MySQL too, where `/` is exact division: 3.5 (SQLite, PostgreSQL: 3) *)
Theorem C02_refuted_mysql_floordiv_is_exact_division :
  let e := EArith FloorDiv (EAttr ga) (EInt 2) in let en := grow (PInt 7) PNone PNone PNone in
  ty_of e = Some (TV TInt) /\ env_ok en e = true /\ ref_eval en e = PInt 3 /\
  value_on DSqlite en e = IntV 3 /\ value_on DPostgres en e = IntV 3 /\ value_on DMysql en e = FracV 7 2.
Proof. cbv zeta. repeat split; reflexivity. Qed.
Print Assumptions C02_refuted_mysql_floordiv_is_exact_division.

(* min(p.a, p.b) with a = 1, b = None: PostgreSQL's least ignores NULLs (1); SQLite min / MySQL least give NULL *)
Theorem C02_refuted_postgres_least_ignores_null :
  let e := EMinMax false [EAttr ga; EAttr gb] in let en := grow (PInt 1) PNone PNone PNone in
  ty_of e = Some (TV TInt) /\ env_ok en e = true /\ ref_eval en e = PNone /\
  value_on DSqlite en e = NullV /\ value_on DMysql en e = NullV /\ value_on DPostgres en e = IntV 1.
Proof. cbv zeta. repeat split; reflexivity. Qed.
Print Assumptions C02_refuted_postgres_least_ignores_null.

(* len(p.s) with s = 'é' (U+00E9): LENGTH is rendered length(), which counts bytes on MySQL (2) *)
Theorem C02_refuted_mysql_length_counts_bytes :
  let e := ELen (EAttr gs) in let en := grow PNone PNone (PStr [233]) PNone in
  ty_of e = Some (TV TInt) /\ env_ok en e = true /\ ref_eval en e = PInt 1 /\
  value_on DSqlite en e = IntV 1 /\ value_on DPostgres en e = IntV 1 /\ value_on DMysql en e = IntV 2.
Proof. cbv zeta. repeat split; reflexivity. Qed.
Print Assumptions C02_refuted_mysql_length_counts_bytes.

(* [p for p in P if not coalesce(p.f, p.f)] with f = None: NumericMixin.negate builds NOT coalesce(x, true) on PostgreSQL
   (row dropped) but coalesce(x, 0) = 0 elsewhere (row kept, as in Python: not None) *)
Theorem C02_refuted_postgres_not_of_nullable_bool_expression :
  let e := ENot (ECoalesce [EAttr gf; EAttr gf]) in let en := grow PNone PNone PNone PNone in
  ty_of e = Some TCond /\ env_ok en e = true /\ py_truthy e (ref_eval en e) = true /\
  kept_on DSqlite en e = Some true /\ kept_on DMysql en e = Some true /\ kept_on DPostgres en e = Some false.
Proof. cbv zeta. repeat split; reflexivity. Qed.
Print Assumptions C02_refuted_postgres_not_of_nullable_bool_expression.

(* (p.f if p.s else p.a) and coalesce(p.f, p.a): postIfExp / coalesce do not apply the bool -> int cast that
   coerce_monads applies for arithmetic and comparisons; PostgreSQL rejects CASE / coalesce over boolean and integer *)
Theorem C02_refuted_postgres_mixed_bool_int_branches :
  let e1 := EIf (EAttr gs) (EAttr gf) (EAttr ga) in let e2 := ECoalesce [EAttr gf; EAttr ga] in
  let en := grow (PInt 1) PNone (PStr [120]) (PBool true) in
  value_on DSqlite en e1 = IntV 1 /\ value_on DPostgres en e1 = ErrV /\
  value_on DSqlite en e2 = IntV 1 /\ value_on DPostgres en e2 = ErrV.
Proof. cbv zeta. repeat split; reflexivity. Qed.
Print Assumptions C02_refuted_postgres_mixed_bool_int_branches.

(* select(sum(p.f) for p in P) / avg: the translator emits SUM("p"."f") on the boolean column; PostgreSQL has no sum(boolean) /
   avg(boolean) (the statement is rejected), SQLite and MySQL add up the 0 / 1 integers *)
Theorem C02_refuted_postgres_sum_avg_of_boolean :
  let g := GAgg FAvg false (EAttr gf) in
  let r (id : Z) (b : bool) := mkenv (fun i => match i with 0%nat => PInt id | 6%nat => PBool b | _ => PNone end) (fun _ => PNone) in
  let table := [r 1 true; r 2 false; r 3 true] in
  aggr_safe DPostgres g = false /\
  exists qa, tr_aggr DPostgres 0%nat g = Some qa /\ tr_aggr DSqlite 0%nat g = Some qa /\
    sql_aggr DPostgres qa [] table = ErrV /\
    sql_aggr DSqlite qa [] table = FracV 2 3 /\ sql_aggr DMysql qa [] table = FracV 2 3.
Proof. cbv zeta. split; [reflexivity|]. eexists. repeat split; reflexivity. Qed.
Print Assumptions C02_refuted_postgres_sum_avg_of_boolean.

(* select(p.id for p in P).order_by(p.a, p.id) with a None among the keys: SQLite and MySQL sort NULL first, PostgreSQL last - the
   translator writes plain ORDER BY "p"."a" on every dialect (no NULLS FIRST / LAST, no IS NULL key) *)
Theorem C02_refuted_order_by_null_placement_differs :
  let pk := mkattr 0 TInt false in
  let r (id : Z) (av : pyv) := mkenv (fun i => match i with 0%nat => PInt id | 1%nat => av | _ => PNone end) (fun _ => PNone) in
  let table := [r 1 (PInt 2); r 2 PNone] in let ks := [(EAttr ga, false); (EAttr pk, false)] in
  keys_not_none ks None table = false /\
  exists k, tr_order DSqlite ks = Some k /\ tr_order DPostgres ks = Some k /\ tr_order DMysql ks = Some k /\
    sql_order_rows DSqlite k [] (QCol 0) table = [IntV 2; IntV 1] /\ sql_order_rows DMysql k [] (QCol 0) table = [IntV 2; IntV 1] /\
    sql_order_rows DPostgres k [] (QCol 0) table = [IntV 1; IntV 2].
Proof. cbv zeta. split; [reflexivity|]. eexists. repeat split; reflexivity. Qed.
Print Assumptions C02_refuted_order_by_null_placement_differs.
