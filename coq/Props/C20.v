(* C20 - Optimistic concurrency control prevents lost updates.
   Model: Model/C20Opt.v (one shared row, any number of optimistic sessions, any programs of Read / Write / Commit,
   any schedule = list of session ids).  Property theorems only. *)
From Coq Require Import ZArith List Bool.
Import ListNotations.
Require Import PonyV.Model.C20Opt PonyV.Model.C20Life PonyV.Proofs.C20OptProofs PonyV.Proofs.C20Serial PonyV.Proofs.C20LifeProofs PonyV.Model.C20Multi PonyV.Proofs.C20MultiProofs PonyV.Model.C20Decisions PonyV.Proofs.C20DecisionsProofs.

(* The WHERE clause of the UPDATE (Entity._construct_optimistic_criteria_): `col = value read` (IS NULL for None)
   for exactly the attributes with a read bit whose optimistic option (own, else the converter's) is on. *)
Theorem C20_where : forall k sch x a v,
  In (a, v) (criteria k sch x) <-> (a < k)%nat /\ rbits x a = true /\ a_opt (sch a) = true /\ v = dbvals x a.
Proof. exact in_criteria. Qed.
Print Assumptions C20_where.

(* In every reachable state (all programs, all schedules) a read bit is set exactly for the non-volatile attributes the
   session's program has observed from the database (i.e. read before overwriting them) ... *)
Theorem C20_rbits_exact : forall k sch d pr sched s a,
  let stt := run k sch (init d pr) sched in
  rbits (ss stt s) a = true <-> a_vol (sch a) = false /\ exists v, observed stt s a v.
Proof. exact rbits_exact. Qed.
Print Assumptions C20_rbits_exact.

(* ... hence the WHERE clause holds (attribute, value the program saw) for exactly the protected attributes it read. *)
Theorem C20_where_reachable : forall k sch d pr sched s a v,
  let stt := run k sch (init d pr) sched in
  In (a, v) (criteria k sch (ss stt s)) <-> (a < k)%nat /\ checked sch a = true /\ observed stt s a v.
Proof. exact where_reachable. Qed.
Print Assumptions C20_where_reachable.

(* No lost update, for all programs, all numbers of sessions and all interleavings: take any reachable state and let
   any session s make its next step.
   (1) the row changes only if s was active, had written something and this step commits it;
   (2) it is committed only if every protected attribute it observed from the database still holds the observed value,
       and the row then receives exactly its writes;
   (3) if some such attribute has changed, the commit ends in OptimisticCheckError and the row is untouched;
   (4) conversely an OptimisticCheckError occurs only then;
   (5) a finished session never acts again (so the writes of a failed session never become visible). *)
Theorem C20_no_lost_update : forall k sch d pr sched s,
  let stt := run k sch (init d pr) sched in
  let stt' := step k sch stt s in
  let x := ss stt s in
  ((exists a, sdb stt' a <> sdb stt a) -> st x = Active /\ st (ss stt' s) = Committed /\ has_writes k x)
  /\ (st x = Active -> st (ss stt' s) = Committed -> has_writes k x ->
        still_valid k sch stt s
        /\ forall a, sdb stt' a = if (a <? k)%nat && wbits x a then vals x a else sdb stt a)
  /\ (st x = Active -> (exists rest, progs stt s = Commit :: rest) -> has_writes k x -> ~ still_valid k sch stt s ->
        st (ss stt' s) = Failed E_OPT /\ sdb stt' = sdb stt)
  /\ (st x = Active -> st (ss stt' s) = Failed E_OPT -> sdb stt' = sdb stt /\ has_writes k x /\ ~ still_valid k sch stt s)
  /\ (st x <> Active -> stt' = stt).
Proof. exact no_lost_update. Qed.
Print Assumptions C20_no_lost_update.

(* Serial formulation.  Whenever a session with writes commits successfully - in any reachable state, i.e. after any
   interleaving with any other sessions - and everything it read from the database is protected by the check (each
   read bit belongs to an attribute with optimistic checking on; no volatile value flows into a write), the row after
   its commit is exactly the row obtained by running the session's program p ALONE on the row as it was just before
   the commit.  By induction over the commits the final row is the serial composition of the committed sessions in
   commit order.  Reads of unprotected attributes (optimistic=False, float, volatile) are the stated exception. *)
Theorem C20_serial : forall k sch d pr sched s rest,
  let stt := run k sch (init d pr) sched in
  let stt' := step k sch stt s in
  st (ss stt s) = Active -> progs stt s = Commit :: rest -> st (ss stt' s) = Committed -> has_writes k (ss stt s) ->
  (forall a, rbits (ss stt s) a = true -> (a < k)%nat /\ a_opt (sch a) = true) ->
  (forall a b dl, In (Write a (EPlus b dl)) (pr s) -> a_vol (sch b) = false) ->
  exists p, pr s = p ++ Commit :: rest /\ forall a, sdb stt' a = serial_row k sch (sdb stt) p a.
Proof. exact commit_is_serial. Qed.
Print Assumptions C20_serial.

(* ---- one session with several transactions (model Life): explicit commit() in the middle, get_for_update, created objects;
   other sessions commit changes of the row (LExt) whenever this session does not hold the write lock. ---- *)

(* Lifetime of the exemption from optimistic checks: for every history, the object is in cache.for_update only while it is
   still uninserted (nobody else can see the row) or the session is inside the transaction that holds the write lock.
   commit() ends both, and with them the exemption. *)
Theorem C20_forupdate_lifetime : forall k sch d evs,
  let s := lrun k sch (linit d) evs in
  lforupd s = true -> lcreated s = true \/ ltxn s <> None.
Proof. exact forupd_lifetime. Qed.
Print Assumptions C20_forupdate_lifetime.

(* No lost update across transactions of one session: in every reachable state, an UPDATE that would be applied now -
   because its optimistic criteria match OR because the object is exempt - finds every attribute that carries a read bit
   and has optimistic checking on equal to the value the session holds for it (read bits and dbvals survive commit()). *)
Theorem C20_multi_transaction : forall k sch d evs,
  let s := lrun k sch (linit d) evs in
  update_applies k sch s = true ->
  forall a, (a < k)%nat -> rbits (lx s) a = true -> a_opt (sch a) = true -> view s a = dbvals (lx s) a.
Proof. exact applied_update_valid. Qed.
Print Assumptions C20_multi_transaction.

(* the flush applies its UPDATE exactly in that case; otherwise it ends the session with OptimisticCheckError, rolled back *)
Theorem C20_flush_applies : forall k sch s, lcreated s = false -> set_list k (lx s) <> [] ->
  snd (l_flush k sch s) = update_applies k sch s
  /\ (snd (l_flush k sch s) = true -> forall a, view (fst (l_flush k sch s)) a = apply_sets (view s) (set_list k (lx s)) a)
  /\ (snd (l_flush k sch s) = false -> ldb (fst (l_flush k sch s)) = ldb s /\ ltxn (fst (l_flush k sch s)) = None
                                        /\ st (lx (fst (l_flush k sch s))) = Failed E_OPT).
Proof. exact flush_applies. Qed.
Print Assumptions C20_flush_applies.

(* ---- one session, SEVERAL objects (model Multi): one UPDATE per modified object in objects_to_save order, auto-flush in
   front of a load, other sessions' commits whenever the write lock is free. ---- *)

(* All-or-nothing across objects, for every state and every step: a step that ends the session in an error (one object's
   optimistic check failed, possibly after UPDATEs of other objects were already executed in the transaction) leaves every
   committed row untouched and no transaction open; committed rows change only by another session's commit while the lock is
   free, or by this session's successful commit. *)
Theorem C20_all_or_nothing : forall k sch s e,
  let s' := mstep k sch s e in
  (mfail s = None -> mfail s' <> None -> mdb s' = mdb s /\ mtxn s' = None)
  /\ (mdb s' <> mdb s -> (exists o a v, e = MExt o a v /\ mtxn s = None)
                          \/ (e = MCommit /\ mfail s = None /\ mfail s' = None /\ mtxn s' = None)).
Proof. exact all_or_nothing. Qed.
Print Assumptions C20_all_or_nothing.

(* In every reachable state: if the flush succeeds, EVERY modified object passed its own optimistic check against the view
   the flush started from and received exactly its writes; objects that were not modified are untouched. *)
Theorem C20_multi_object_checked : forall k sch d evs,
  let s := mrunm k sch (minit0 d) evs in
  mfail s = None -> mfail (m_flush k sch s) = None ->
  (forall o, In o (mord s) -> matches (mview s o) (criteria k sch (mx s o)) = true
                              /\ mview (m_flush k sch s) o = apply_sets (mview s o) (set_list k (mx s o)))
  /\ (forall o, ~ In o (mord s) -> mview (m_flush k sch s) o = mview s o).
Proof. exact flush_checked. Qed.
Print Assumptions C20_multi_object_checked.

(* The error raised when an UPDATE with optimistic criteria finds no row: OptimisticCheckError whenever the criteria were
   built, i.e. inside an optimistic db_session and outside any db_session (interactive mode). *)
Theorem C20_rowcount0 : forall ds, rowcount0_outcome ds = rowcount0_spec ds.
Proof. exact rowcount0_ok. Qed.
Print Assumptions C20_rowcount0.

(* Non-vacuity: the classic lost update.  Two sessions run `obj.a = obj.a + 1; commit` on a = 10, interleaved
   read / read / write+commit / write+commit: the first commits (a = 11), the second ends in OptimisticCheckError. *)
Definition sch2 : list attr := [ {| a_decl := None; a_conv := true; a_vol := false |} ].
Example C20_nonvacuous :
  outcome 1 2 sch2 [Some 10%Z] [[Read 0; Write 0 (EPlus 0 1); Commit]; [Read 0; Write 0 (EPlus 0 1); Commit]] [0; 1; 0; 0; 1; 1]%nat
  = ([Some 11%Z], [Committed; Failed E_OPT],
     [EvObs 0 0 (Some 10%Z) true; EvObs 1 0 (Some 10%Z) true; EvObs 0 0 (Some 10%Z) true;
      EvUpdate 0 [(0%nat, Some 11%Z)] [(0%nat, Some 10%Z)] true; EvEnd 0 Committed;
      EvObs 1 0 (Some 10%Z) true; EvUpdate 1 [(0%nat, Some 11%Z)] [(0%nat, Some 10%Z)] false; EvEnd 1 (Failed E_OPT)]).
Proof. vm_compute. reflexivity. Qed.

(* serial_row on the same programs: each increment run alone from the row left by the previous commit *)
Example C20_serial_nonvacuous :
  map (serial_row 1 (schema_of sch2) (row_of [Some 10%Z]) [Read 0; Write 0 (EPlus 0 1)]) [0%nat] = [Some 11%Z].
Proof. vm_compute. reflexivity. Qed.

(* Life: lock the row, read a = 10, commit(); another session commits a := 70; a := a - 5, commit(): OptimisticCheckError,
   the other session's value stays.  Inside the first transaction the same update is applied without criteria. *)
Example C20_life_nonvacuous :
  loutcome 1 sch2 (Some [Some 10%Z]) [LForUpd; LRead 0; LCommit; LExt 0 (Some 70%Z); LWrite 0 (EPlus 0 (-5)); LCommit]
  = (Some [Some 70%Z], false, [LObs 0 (Some 10%Z); LObs 0 (Some 10%Z); LUpdate [(0%nat, Some 5%Z)] [(0%nat, Some 10%Z)] false; LFail 1]).
Proof. vm_compute. reflexivity. Qed.
Example C20_life_nonvacuous_locked :
  loutcome 1 sch2 (Some [Some 10%Z]) [LForUpd; LRead 0; LExt 0 (Some 70%Z); LWrite 0 (EPlus 0 (-5)); LCommit]
  = (Some [Some 5%Z], false, [LObs 0 (Some 10%Z); LObs 0 (Some 10%Z); LUpdate [(0%nat, Some 5%Z)] [] true]).
Proof. vm_compute. reflexivity. Qed.

(* Multi: object 0 is updated by the auto-flush in front of the load of object 1 (lock held), object 1's check then fails at the
   commit because another session had changed it before: the UPDATE of object 0 is rolled back with it. *)
Example C20_multi_nonvacuous :
  moutcomem 1 2 sch2 [[Some 10%Z]; [Some 30%Z]]
    [MRead 1 0; MExt 1 0 (Some 71%Z); MRead 0 0; MWrite 0 0 (EConst (Some 5%Z)); MWrite 1 0 (EConst (Some 6%Z)); MCommit]
  = ([[Some 10%Z]; [Some 71%Z]], false,
     [MObs 1 0 (Some 30%Z); MObs 0 0 (Some 10%Z); MUpd 0 [(0%nat, Some 5%Z)] [(0%nat, Some 10%Z)] true;
      MUpd 1 [(0%nat, Some 6%Z)] [(0%nat, Some 30%Z)] false; MFail 1]).
Proof. vm_compute. reflexivity. Qed.
