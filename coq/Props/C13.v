(* C13 - A modification that raises leaves the session exactly as it was.
   Property theorems only: each is closed by `exact <lemma>`; Print Assumptions must report a closed term.
   Model: Model/C13Heap.v (session cache as a heap, undo closures as data), Model/C13Session.v (the modification paths of
   pony/orm/core.py with their undo protocol, for every schema), Model/C13Spec.v (observe, known_bad). *)
From Coq Require Import ZArith NArith List Bool.
Import ListNotations.
Require Import PonyV.Model.C13Heap PonyV.Model.C13Session PonyV.Model.C13Spec PonyV.Model.C13Schemas PonyV.Model.C13Check
               PonyV.Proofs.C13HeapLemmas PonyV.Proofs.C13Proofs.

(* For every schema, every session state (no well-formedness needed: the model checks the shapes the code asserts), every
   top-level modification (constructor, attribute assignment, set(), delete(), collection add / remove / assignment) and every
   injected fault (k-th index update / k-th reverse_add raising): if the call raises and is not known-bad, every observable
   location of the session is as before the call. *)
Theorem C13_atomic : forall sch flt s o,
  raises sch flt s o -> known_bad sch flt s o = false ->
  forall l, observe (o_state (step sch flt s o)) l = observe s l.
Proof. exact atomic_except_known. Qed.
Print Assumptions C13_atomic.

(* ... in particular at any point of any history *)
Theorem C13_atomic_in_histories : forall sch pre fo,
  raises sch (fst fo) (state_of_history sch pre) (snd fo) -> known_bad sch (fst fo) (state_of_history sch pre) (snd fo) = false ->
  forall l, observe (state_of_history sch (pre ++ [fo])) l = observe (state_of_history sch pre) l.
Proof. exact atomic_in_histories. Qed.
Print Assumptions C13_atomic_in_histories.

(* known-bad means: the run was marked - since the repairs in /repo (cd0fda9, a26540f, 6e4a87a, 751c8a4, e3298c1) the only mark left is
   TInconsistent: a dictionary / queue was not in the shape the code itself asserts *)
Theorem C13_known_bad_is_a_site : forall sch flt s o, known_bad sch flt s o = true ->
  exists t, In t (o_taints (step sch flt s o)).
Proof. exact known_bad_sites. Qed.
Print Assumptions C13_known_bad_is_a_site.

(* ... and that is all there is: no code site that mutates without a (correct) undo is left in the model, so there is no open finding *)
Theorem C13_sites_complete : forall sch flt s o, known_bad sch flt s o = true ->
  exists t, In t (o_taints (step sch flt s o)) /\ In t all_sites.
Proof. exact sites_complete. Qed.
Print Assumptions C13_sites_complete.

(* many-to-many, both sides: x.tags = [t2] with t2 deleted fails after x has been removed from t1.aa; not known-bad, one closure to undo,
   and by C13_atomic both x.tags and t1.aa are as before *)
Example C13_nonvacuous_m2m :
  let pre := [(None, ONew 0 1 [(5, AInt 0)]); (None, ONew 2 1 [(1, AObjs [0])]); (None, ONew 2 2 []); (None, OCommit); (None, ODelete 2)] in
  let s := state_of_history sch_S1 pre in
  raises sch_S1 None s (OSet 0 7 (AObjs [2])) /\ known_bad sch_S1 None s (OSet 0 7 (AObjs [2])) = false /\
  match body sch_S1 None (OSet 0 7 (AObjs [2])) (mkctx s [] [] 0 0) with RErr EDeleted c => length (c_log c) = 1 | _ => False end /\
  g_bool (o_state (step sch_S1 None s (OSet 0 7 (AObjs [2])))) (LItem 1 1 0) = true.
Proof. vm_compute. split; [discriminate|]. repeat split; reflexivity. Qed.

(* non-vacuity: a delete() that cascades to two children and is then refused because of a required dependent raises, is not
   known-bad, and has real work to undo (four closures) *)
Example C13_nonvacuous :
  let pre := [(None, ONew 0 1 [(5, AInt 0)]); (None, ONew 4 1 [(1, AObj 0)]); (None, ONew 4 2 [(1, AObj 0)]);
              (None, ONew 5 1 [(1, AObj 0)]); (None, OCommit)] in
  let s := state_of_history sch_S1 pre in
  raises sch_S1 None s (ODelete 0) /\ known_bad sch_S1 None s (ODelete 0) = false /\
  match body sch_S1 None (ODelete 0) (mkctx s [] [] 0 0) with RErr EConstraint c => length (c_log c) = 4 | _ => False end.
Proof. vm_compute. split; [discriminate|]. split; reflexivity. Qed.
