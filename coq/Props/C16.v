(* C16 - Flush emits writes in an order the database accepts.
   Property theorems only: each is closed by `exact <lemma>`; Print Assumptions must report a closed term.
   Model: Model/C16Flush.v (pending objects with their foreign-key columns, the save queue, Entity._save_ with the recursive saving
   of referenced new objects and the shared dependent_objects list, link-row phases, a database that checks foreign keys per statement). *)
From Coq Require Import List Bool Arith.
Import ListNotations.
Require Import PonyV.Model.C16Flush PonyV.Proofs.C16Proofs.

(* If the pending set is well formed (every reference of a new / changed row points to a stored row or to a new object and not to one
   that is being deleted; whoever references a row that is being deleted is itself deleted, or updated away, earlier in the queue; link
   rows join live objects) and the references between new objects can be ranked, then flush emits a statement list that the database
   accepts statement by statement under immediate foreign-key enforcement, and the commit goes through. *)
Theorem C16_order : forall d p rank,
  wf_pending d p = true -> ranked (p_queue p) rank ->
  (forall ob, In ob (p_queue p) -> o_st ob = Created -> S (rank (o_id ob)) <= length (p_queue p)) ->
  exists ss d', flush p = FOk ss /\ exec_all d ss = Some d' /\ commit d p = (d', true).
Proof. exact flush_order. Qed.
Print Assumptions C16_order.

(* A cycle of references between new objects (required or optional): flush does not produce a statement list and the commit leaves the
   database exactly as it was.  (That the error is UnresolvableCyclicDependency rather than the model's fuel exhaustion is checked
   against the implementation on every run.) *)
Theorem C16_cycle : forall d p cyc, on_cycle (p_queue p) cyc ->
  (forall ss, flush p <> FOk ss) /\ commit d p = (d, false).
Proof. exact flush_cycle. Qed.
Print Assumptions C16_cycle.

(* non-vacuity: a child created before its parent and a grandchild created before both (queue order G, C, P with G -> C -> P) on top of
   a stored row 9 that is deleted after its referrer 8 has been updated away from it; and a two-cycle *)
Example C16_nonvacuous :
  let d := mkdb [(9, []); (8, [(1, Some 9)])] [] in
  let p := mkpending [mkobj 3 Created [(1, Some 2)]; mkobj 2 Created [(1, Some 1)]; mkobj 8 Modified [(1, Some 1)];
                      mkobj 1 Created [(1, None)]; mkobj 9 Deleted []] [(1, 8)] [] in
  wf_pending d p = true /\
  flush p = FOk [SInsert 1 [(1, None)]; SInsert 2 [(1, Some 1)]; SInsert 3 [(1, Some 2)]; SUpdate 8 [(1, Some 1)]; SDelete 9; SLinkIns 1 8] /\
  snd (commit d p) = true /\
  flush (mkpending [mkobj 1 Created [(1, Some 2)]; mkobj 2 Created [(1, Some 1)]] [] []) = FCycle [1; 2; 1].
Proof. vm_compute. repeat split; reflexivity. Qed.
