(* C16 - Flush emits writes in an order the database accepts.
   Property theorems only: each is closed by `exact <lemma>`; Print Assumptions must report a closed term.
   Model: Model/C16Flush.v (pending objects with their foreign-key columns, the save queue, Entity._save_ with the recursive saving
   of referenced new objects and the shared dependent_objects list, link-row phases, a database that checks foreign keys per statement). *)
From Coq Require Import List Bool Arith.
Import ListNotations.
Require Import PonyV.Model.C16Flush PonyV.Proofs.C16Proofs.

(* If the pending set is well formed (every reference of a new / changed row points to a stored row or to a new object and not to one
   that is being deleted; whoever references a row that is being deleted is itself deleted, or updated away, earlier in the queue; link
   rows join live objects) and the references between new objects can be ranked, then flush emits a statement list that the database
   accepts statement by statement under immediate foreign-key enforcement, and the commit goes through. *)
Theorem C16_order : forall d p rank,
  wf_pending d p = true -> ranked (p_queue p) rank ->
  (forall ob, In ob (p_queue p) -> o_st ob = Created -> S (rank (o_id ob)) <= length (p_queue p)) ->
  exists ss d', flush p = FOk ss /\ exec_all d ss = Some d' /\ commit d p = (d', true).
Proof. exact flush_order. Qed.
Print Assumptions C16_order.

(* flush never gives up for lack of fuel: for every pending set whatsoever the result is a statement list or the cycle error
   (dependent_objects has no repetitions and only holds queued objects, which bounds the depth of the recursion). *)
Theorem C16_no_fuel : forall p, flush p <> FFuel.
Proof. exact flush_no_fuel. Qed.
Print Assumptions C16_no_fuel.

(* A cycle of references between new objects (required or optional): flush reports UnresolvableCyclicDependency (the cycle error,
   not fuel exhaustion) and the commit leaves the database exactly as it was. *)
Theorem C16_cycle : forall d p cyc, on_cycle (p_queue p) cyc ->
  (exists chain, flush p = FCycle chain) /\ commit d p = (d, false).
Proof. exact flush_cycle_error. Qed.
Print Assumptions C16_cycle.

(* non-vacuity: grandchild, child, parent queued in the wrong order (3 -> 2 -> 1) on top of stored rows; row 8 references row 9 through an
   ON DELETE SET NULL column (odd id) and is NOT updated before 9 is deleted: the database nulls it; object 9 sits twice in the queue;
   and a two-cycle gives the cycle error *)
Example C16_nonvacuous :
  let d := mkdb [(9, []); (8, [(1, Some 9)]); (7, [(2, Some 9)])] [] in
  let p := mkpending [mkobj 3 Created [(2, Some 2)]; mkobj 2 Created [(2, Some 1)]; mkobj 7 Modified [(2, Some 1)];
                      mkobj 9 Deleted []; mkobj 1 Created [(2, None)]; mkobj 9 Deleted []] [(1, 8)] [] in
  wf_pending d p = true /\
  flush p = FOk [SInsert 1 [(2, None)]; SInsert 2 [(2, Some 1)]; SInsert 3 [(2, Some 2)]; SUpdate 7 [(2, Some 1)]; SDelete 9; SLinkIns 1 8] /\
  fst (commit d p) = mkdb [(3, [(2, Some 2)]); (2, [(2, Some 1)]); (1, [(2, None)]); (8, [(1, None)]); (7, [(2, Some 1)])] [(1, 8)] /\
  flush (mkpending [mkobj 1 Created [(2, Some 2)]; mkobj 2 Created [(2, Some 1)]] [] []) = FCycle [1; 2; 1].
Proof. vm_compute. repeat split; reflexivity. Qed.
