(* C15 - Deletion honours cascade rules and leaves no dangling references.
   Property theorems only: each is closed by `exact <lemma>`; Print Assumptions must report a closed term.
   Model: Model/C15Delete.v (objects + links, flags as Pony derives them, Entity._delete_ and the ON DELETE clauses as one
   policy-parametric recursive removal, the table view). *)
From Coq Require Import List Bool Arith.
Import ListNotations.
Require Import PonyV.Model.C15Delete PonyV.Model.C15Schemas PonyV.Proofs.C15Proofs.

(* For every well-formed schema and every history of creations, obj.delete() calls and database-side bulk deletes (any order,
   any mix, refused ones included): no stored foreign-key value or link row points to, or is held by, a missing row. *)
Theorem C15_no_dangling : forall sch, wf_schema sch = true ->
  forall ops, run_ok sch (mkst [] []) ops = true -> no_dangling (run sch ops).
Proof. exact history_no_dangling. Qed.
Print Assumptions C15_no_dangling.

(* a successful obj.delete() removes the object, whatever it had to cascade to or unlink on the way *)
Theorem C15_delete_removes : forall sch, wf_schema sch = true ->
  forall s x s', inv sch s -> remove sch (mem_policy sch) fuel0 x s = Some s' -> alive s' x = false /\ no_dangling s'.
Proof. exact delete_kills. Qed.
Print Assumptions C15_delete_removes.

(* bulk delete: the ON DELETE clauses chosen by generate_mapping, enforced by the database, leave no dangling reference either *)
Theorem C15_bulk : forall sch, wf_schema sch = true ->
  forall s xs s', inv sch s -> fold_opt (remove sch (db_policy sch) fuel0) xs s = Some s' ->
  (forall x, In x xs -> alive s' x = false) /\ no_dangling s'.
Proof. exact bulk_kills. Qed.
Print Assumptions C15_bulk.

(* The whole call: after a successful delete (policy = mem_policy) or bulk delete (db_policy), EVERY object reachable from the deleted one
   through cascading relationships in the state before the call is gone (closure over the recursion, not just one step), and no stored
   reference mentions a deleted object any more (optional references to them have been cleared, link rows removed). *)
Theorem C15_cascade_closure : forall sch, wf_schema sch = true ->
  forall policy fuel o s s', inv sch s -> remove sch policy fuel o s = Some s' ->
  forall p, reach sch policy s o p -> alive s' p = false /\ no_dangling s'.
Proof. exact closure_alive. Qed.
Print Assumptions C15_cascade_closure.

(* per relationship, at the step of the deletion that handles it (policy = mem_policy for _delete_, db_policy for the database):
   cascade - every partner is gone afterwards; clear - the partners stay, the references are gone; refuse - an error *)
Theorem C15_cascade : forall sch, wf_schema sch = true ->
  forall policy fuel o e a s s', policy e a = ACascade -> inv sch s ->
  step_attr sch policy (remove sch policy fuel) o e a s = Some s' ->
  forall p, In p (partners sch s o e a) -> alive s' p = false.
Proof. exact step_cascade. Qed.
Print Assumptions C15_cascade.

Theorem C15_clear : forall sch policy rm o e a s, policy e a = AUnlink -> inv sch s ->
  exists s', step_attr sch policy rm o e a s = Some s' /\ partners sch s' o e a = [] /\ objs s' = objs s.
Proof. exact step_clear. Qed.
Print Assumptions C15_clear.

Theorem C15_refuse : forall sch policy rm o e a s,
  policy e a = ARefuse -> partners sch s o e a <> [] -> step_attr sch policy rm o e a s = None.
Proof. exact step_refuse. Qed.
Print Assumptions C15_refuse.

(* ... and a refused call (ConstraintError from delete(), IntegrityError from a bulk delete) changes nothing *)
Theorem C15_refusal_changes_nothing : forall sch s o, snd (step sch s o) = RRefused -> fst (step sch s o) = s.
Proof. exact refusal_no_change. Qed.
Print Assumptions C15_refusal_changes_nothing.

(* which of the three it is, from the declared flags (cascade_delete default = is_collection and reverse.is_required) *)
Theorem C15_flags_one_to_many_default : forall sch e a,
  a_kind (get_attr sch e a) = KSet -> a_kind (rev_attr sch e a) = KRef -> a_cascade_opt (get_attr sch e a) = None ->
  mem_policy sch e a = if a_required (rev_attr sch e a) then ACascade else AUnlink.
Proof. exact policy_one_to_many_default. Qed.
Print Assumptions C15_flags_one_to_many_default.

Theorem C15_flags_explicit : forall sch e a b,
  a_kind (get_attr sch e a) = KSet -> a_cascade_opt (get_attr sch e a) = Some b ->
  mem_policy sch e a = if b then ACascade else if a_required (rev_attr sch e a) then ARefuse else AUnlink.
Proof. exact policy_explicit. Qed.
Print Assumptions C15_flags_explicit.

Theorem C15_flags_one_to_one : forall sch e a,
  a_kind (get_attr sch e a) = KRef -> a_kind (rev_attr sch e a) = KRef ->
  mem_policy sch e a = if cascade sch e a then ACascade else if a_required (rev_attr sch e a) then ARefuse else AUnlink.
Proof. exact policy_one_to_one. Qed.
Print Assumptions C15_flags_one_to_one.

(* the database does to referencing rows what _delete_ does to the partners, whenever the column is on the other side *)
Theorem C15_bulk_agrees_with_delete : forall sch e a,
  a_target (rev_attr sch e a) = e -> a_reverse (rev_attr sch e a) = a ->
  has_column sch e a = false -> a_kind (rev_attr sch e a) = KRef ->
  db_policy sch e a = mem_policy sch e a.
Proof. exact db_agrees_with_memory. Qed.
Print Assumptions C15_bulk_agrees_with_delete.

(* non-vacuity: the test schema is well formed; deleting a parent with a cascading child + grandchild, an optional child and a
   many-to-many partner succeeds and leaves exactly the optional child and the partner, unlinked *)
Example C15_nonvacuous :
  wf_schema sch_S15 = true /\
  let ops := [ONew 0 0 []; ONew 1 1 [(0, 0)]; ONew 2 9 [(0, 1)]; ONew 3 3 [(0, 0)]; ONew 4 8 [(0, 0)]; ODelete 0] in
  run_ok sch_S15 (mkst [] []) ops = true /\ objs (run sch_S15 ops) = [(4, 8); (3, 3)] /\ links (run sch_S15 ops) = [] /\
  snd (step sch_S15 (run sch_S15 [ONew 0 0 []; ONew 1 2 [(0, 0)]]) (ODelete 0)) = RRefused.
Proof. vm_compute. repeat split; reflexivity. Qed.
