(* C09 - Committed database state equals the state the program committed.
   Property theorems only: each is closed by `exact <lemma>`; Print Assumptions must report a closed term.

   What is proved here (all operations of Model/Session.v, every schema, every state or operation list) is the transaction
   structure of the session model (which operations can change the committed database and what they make it) and the completeness
   of a flush at the level of statuses, and - for Stage 1 schemas WITHOUT Required references (no ON DELETE CASCADE) - the first
   piece of the simulation: in every clean history the committed row of every object the program holds carries exactly the object's
   scalar attribute values (C09_committed_scalars_except_known, from the coherence invariant of Proofs/SessionCoh.v).  NOT proved:
   the same for reference columns and collections, schemas with Required references, and that no other rows exist; those are
   checked on generated histories against the logical reference state of tools/session_spec.py (on the implementation) and
   refuted for two known defects (Findings/C09.v).  Stage 1 schema space of DESIGN Appendix A. *)
Require Import PonyV.Model.SessionBase PonyV.Model.SessionDb PonyV.Model.Session.
Require Import PonyV.Proofs.SessionDbPd PonyV.Proofs.SessionTxn PonyV.Proofs.SessionQueue PonyV.Proofs.SessionQueueInv PonyV.Proofs.SessionCoh PonyV.Proofs.SessionRefs.

(* changes made after the last commit are never published by anything but a commit (or leaving the db_session, which commits):
   every other operation - including rollback, failing operations and every read with its auto-flush - leaves the committed database alone *)
Theorem C09_committed_changes_only_at_commit : forall sch s op, op <> OCommit -> op <> ONewSession ->
  s_committed (fst (step sch s op)) = s_committed s.
Proof. exact committed_changes_only_at_commit. Qed.
Print Assumptions C09_committed_changes_only_at_commit.

(* a session that ends with an error: the failing commit publishes nothing and the next session starts from the last commit *)
Theorem C09_failed_commit_publishes_nothing : forall sch s e, s_declined s = false -> snd (commit_op sch s) = RErr e ->
  s_committed (fst (commit_op sch s)) = s_committed s /\ s_db (fst (commit_op sch s)) = s_committed s.
Proof. exact failed_commit_keeps_database. Qed.
Print Assumptions C09_failed_commit_publishes_nothing.

(* a session that rolls back: database and cache are those of the last commit *)
Theorem C09_rollback_discards_everything : forall s,
  let s' := fst (rollback_op s) in
  s_db s' = s_committed s /\ s_committed s' = s_committed s /\ s_objs s' = [] /\ s_idx s' = [] /\ s_tosave s' = [] /\ s_handles s' = [].
Proof. exact rollback_discards_everything. Qed.
Print Assumptions C09_rollback_discards_everything.

(* leaving the db_session commits when the flush succeeds and discards otherwise; the next session starts with an empty cache *)
Theorem C09_newsession_commits_or_discards : forall sch s,
  let s' := fst (newsession_op sch s) in
  s_db s' = s_committed s' /\ s_objs s' = [] /\ s_handles s' = [] /\ (snd (newsession_op sch s) <> ROk -> s_committed s' = s_committed s).
Proof. exact newsession_commits_or_discards. Qed.
Print Assumptions C09_newsession_commits_or_discards.

(* what later sessions can see after a rollback depends on the committed database only *)
Theorem C09_after_rollback_only_committed_matters : forall s1 s2, s_committed s1 = s_committed s2 -> s_declined s1 = s_declined s2 ->
  fst (rollback_op s1) = fst (rollback_op s2).
Proof. exact after_rollback_only_committed_matters. Qed.
Print Assumptions C09_after_rollback_only_committed_matters.

(* a successful commit publishes exactly the database of the flushed transaction *)
Theorem C09_commit_publishes_transaction : forall sch s, s_declined s = false -> snd (commit_op sch s) = ROk ->
  s_committed (fst (commit_op sch s)) = s_db (fst (commit_op sch s)) /\
  exists s1 u, flush sch s = Ok s1 u /\ s_db (fst (commit_op sch s)) = s_db s1.
Proof. exact commit_publishes_transaction. Qed.
Print Assumptions C09_commit_publishes_transaction.

(* flush completeness at the level of statuses: from a state in which every object that has something to save (status created /
   modified / marked_to_delete) sits in objects_to_save at its _save_pos_ (Jq), a flush that succeeds leaves no such object:
   each was inserted / updated / deleted (principals first), none was skipped.  Jq itself is checked on the implementation after
   every operation (oracle queue-not-queued) and proved for all clean histories of the model below. *)
Theorem C09_flush_saves_every_queued_object : forall sch s s' u, Jq s -> flush sch s = Ok s' u -> s_modified s = true ->
  forall o ob, get_obj s' o = Some ob -> pending (o_st ob) = false.
Proof. exact flush_saves_every_queued_object. Qed.
Print Assumptions C09_flush_saves_every_queued_object.

(* the premise of the previous theorem, for ALL histories: in every history that reached no dirty site, an object with something to
   save (other than none: no object is exempt) has a _save_pos_, the slot at an object's _save_pos_ holds that object, and only
   objects with something to save have a _save_pos_ (Jx None).  The dirty sites are exactly the known findings queue-not-queued@... *)
Theorem C09_queue_invariant_except_known : forall sch, wf_schema sch = true ->
  forall ops, s_dirty (run sch ops) = O -> Jx None (run sch ops).
Proof. exact queue_invariant_all_histories. Qed.
Print Assumptions C09_queue_invariant_except_known.

(* the inductive step, from every state (with the C11 invariants it uses for Entity.__init__) *)
Theorem C09_queue_step_preserves : forall sch, wf_schema sch = true ->
  forall s op, SessionIdx.Pk sch s -> PQ s -> PQ (fst (step sch s op)).
Proof. exact PQ_step. Qed.
Print Assumptions C09_queue_step_preserves.

(* hence: in a clean history a flush that succeeds saves every object the program created, changed or deleted *)
Theorem C09_flush_completes_except_known : forall sch, wf_schema sch = true ->
  forall ops s' u, s_dirty (run sch ops) = O -> flush sch (run sch ops) = Ok s' u -> s_modified (run sch ops) = true ->
  forall o ob, get_obj s' o = Some ob -> pending (o_st ob) = false.
Proof. exact flush_completes_all_histories. Qed.
Print Assumptions C09_flush_completes_except_known.

(* ---- Stage 1 schemas without Required references: cache / database coherence for scalar attributes (Proofs/SessionCoh.v) ---- *)

(* the invariant itself, for every history that reached no dirty site: dbvals mirror the transaction's rows, values the program did not
   write are the rows' values, both databases keep their shape and key constraints (see Cq in Proofs/SessionCoh.v) *)
Theorem C09_cache_database_coherence_except_known : forall sch, no_req_refs sch = true -> wf_schema sch = true -> forall ops,
  s_dirty (run sch ops) = O -> Cq sch (run sch ops).
Proof. exact coherence_all_histories. Qed.
Print Assumptions C09_cache_database_coherence_except_known.

(* after a successful commit in a clean history the committed row of an object (loaded, inserted or updated; not a seed) exists and holds
   exactly the object's current scalar values *)
Theorem C09_committed_scalars_settled_except_known : forall sch, no_req_refs sch = true -> wf_schema sch = true -> forall ops s',
  s_dirty (run sch ops) = O -> step sch (run sch ops) OCommit = (s', ROk) ->
  forall o ob z, get_obj s' o = Some ob -> o_pk ob = Some z -> settled (o_st ob) = true -> o_seed ob = false ->
  exists r, In r (tab (s_committed s') (o_ent ob)) /\ r_pk r = z /\
            forall a v, scalar sch (o_ent ob) a = true -> notref v = true -> oval ob a = Some v -> col r a = v.
Proof. exact committed_scalars. Qed.
Print Assumptions C09_committed_scalars_settled_except_known.

(* ... and when the transaction had something to save, that is every object the program did not delete (flush completeness) *)
Theorem C09_committed_scalars_except_known : forall sch, no_req_refs sch = true -> wf_schema sch = true -> forall ops s',
  s_dirty (run sch ops) = O -> s_modified (run sch ops) = true -> step sch (run sch ops) OCommit = (s', ROk) ->
  forall o ob z, get_obj s' o = Some ob -> o_pk ob = Some z -> is_del (o_st ob) = false -> o_seed ob = false ->
  exists r, In r (tab (s_committed s') (o_ent ob)) /\ r_pk r = z /\
            forall a v, scalar sch (o_ent ob) a = true -> notref v = true -> oval ob a = Some v -> col r a = v.
Proof. exact committed_scalars_every_live_object. Qed.
Print Assumptions C09_committed_scalars_except_known.

(* PARTIAL - reference columns.  Proved: what the two writing statements put into a row (every schema, every state): an INSERT writes, for every
   column attribute, the image of the object's value - for a reference the primary key of the object referred to -, an UPDATE does so for the written
   attributes and keeps the other columns.  NOT proved (Proofs/SessionRefs.v, reference_columns_statement): that this is still so at commit, i.e. that the
   referred object keeps a key, that no row refers to a principal when its DELETE runs (ON DELETE SET NULL would change a mirrored column) and that
   loaded collections are complete; the three depend on each other and on the both-ends invariant. *)
Theorem C09_reference_columns_partial : forall sch s o ob s' u, dbwf sch (s_db s) -> get_obj s o = Some ob ->
  (save_created sch s o = Ok s' u ->
   exists z r, obj_pk s' o = Some z /\ In r (tab (s_db s') (o_ent ob)) /\ r_pk r = z /\
     forall a, (a < nattrs sch (o_ent ob))%nat -> attr_is_set sch (o_ent ob) a = false -> col r a = db_image s (oval ob a)) /\
  (forall z, o_pk ob = Some z -> written_asg sch s ob <> [] -> save_updated sch s o = Ok s' u ->
   exists r0 r, In r0 (tab (s_db s) (o_ent ob)) /\ r_pk r0 = z /\ In r (tab (s_db s') (o_ent ob)) /\ r_pk r = z /\
     forall a, (a < nattrs sch (o_ent ob))%nat -> attr_is_set sch (o_ent ob) a = false ->
       col r a = if owbit ob a then db_image s (oval ob a) else col r0 a).
Proof.
  intros sch s o ob s' u W G. split. intros S. exact (insert_writes_reference_keys sch s o ob s' u W G S).
  intros z P NE S. exact (update_writes_reference_keys sch s o ob s' u z W G P NE S).
Qed.
Print Assumptions C09_reference_columns_partial.

(* non-vacuity of the three statements: a schema without Required references, a clean history with an insert, a reload, an update and a delete;
   the last commit succeeds with something to save, and the surviving object (inserted, then updated) is there with its row *)
Example C09_committed_scalars_nonvacuous :
  let sch := [mkEnt false [mkAttr KInt false true; mkAttr KStr false false; mkAttr (KSet 1 0) false false]; mkEnt true [mkAttr (KRef 0 2) false false; mkAttr KInt false false]] in
  let ops := [ONew 0 (Some 1%Z) [(0, AInt 5%Z)]; ONew 1 None [(0, AObj 0); (1, AInt 3%Z)]; ONew 1 None [(1, AInt 4%Z)]; OCommit; ONewSession;
              OGetPk 0 (AInt 1%Z); OSet 0 0 (AInt 6%Z); OSelectAll 1; ODelete 2; OSet 1 1 (AInt 9%Z)]%nat in
  no_req_refs sch = true /\ wf_schema sch = true /\ s_dirty (run sch ops) = O /\ s_modified (run sch ops) = true /\
  snd (step sch (run sch ops) OCommit) = ROk /\
  map (fun ob => (o_ent ob, o_pk ob, o_st ob, o_seed ob)) (s_objs (fst (step sch (run sch ops) OCommit))) =
    [(0, Some 1%Z, SUpdated, false); (1, Some 1%Z, SUpdated, false); (1, Some 2%Z, SDeleted, false)]%nat /\
  tab (s_committed (fst (step sch (run sch ops) OCommit))) 0 = [mkRow 1%Z [VInt 6%Z; VStr []; VNone]] /\
  tab (s_committed (fst (step sch (run sch ops) OCommit))) 1 = [mkRow 1%Z [VInt 1%Z; VInt 9%Z]].
Proof. vm_compute. repeat split; reflexivity. Qed.

(* non-vacuity: create, commit, update + delete + create, roll back, update, commit: the committed rows are those of the two commits *)
Example C09_nonvacuous :
  let sch := [mkEnt false [mkAttr KInt false false; mkAttr (KSet 1 0) false false]; mkEnt true [mkAttr (KRef 0 1) false false]] in
  let ops := [ONew 0 (Some 1%Z) [(0, AInt 5%Z)]; ONew 1 None [(0, AObj 0)]; OCommit;
              OSet 0 0 (AInt 6%Z); ODelete 1; ONew 0 (Some 2%Z) []; ORollback;
              OGetPk 0 (AInt 1%Z); OSet 0 0 (AInt 7%Z); ONew 1 None [(0, AObj 0)]; OCommit]%nat in
  wf_schema sch = true /\ s_dirty (run sch ops) = O /\
  tab (s_committed (run sch (firstn 7 ops))) 0 = [mkRow 1%Z [VInt 5%Z; VNone]] /\
  tab (s_committed (run sch ops)) 0 = [mkRow 1%Z [VInt 7%Z; VNone]] /\
  tab (s_committed (run sch ops)) 1 = [mkRow 1%Z [VInt 1%Z]; mkRow 2%Z [VInt 1%Z]].
Proof. vm_compute. repeat split; reflexivity. Qed.

(* ---- Stage 2 piece: many-to-many link sets (separate model coq/Model/SessionM2M.v: SetData items / added / removed on both sides, Set.load incl.
   partial loads and prefetching, add / remove / assignment, _calc_modified_m2m + remove_m2m / add_m2m; fixed schema A.bs <-> B.as_, stored objects;
   tied to real Pony + SQLite on generated histories by tools/session_m2m.py).  Every state, every operation. ---- *)
Require Import PonyV.Model.SessionM2M PonyV.Proofs.SessionM2M.
Theorem C09_m2m_committed_changes_only_at_commit : forall st op, op <> MCommit -> m_committed (fst (mstep st op)) = m_committed st.
Proof. exact m2m_committed_changes_only_at_commit. Qed.
Print Assumptions C09_m2m_committed_changes_only_at_commit.

Theorem C09_m2m_commit_publishes : forall st,
  m_committed (fst (mstep st MCommit)) = m_db (fst (mstep st MCommit)) /\ m_db (fst (mstep st MCommit)) = m_db (mflush st).
Proof. exact m2m_commit_publishes. Qed.
Print Assumptions C09_m2m_commit_publishes.

Theorem C09_m2m_rollback_discards : forall st, let st' := fst (mstep st MRollback) in
  m_db st' = m_committed st /\ m_committed st' = m_committed st /\ m_sd st' = [] /\ m_modified st' = false.
Proof. exact m2m_rollback_discards. Qed.
Print Assumptions C09_m2m_rollback_discards.

(* the link rows a flush writes: the pairs removed in the A.bs views are deleted, the pairs added there are inserted, nothing else changes *)
Theorem C09_m2m_flush_rows : forall st, m_modified st = true ->
  let added := flat_map (fun a => map (fun b => (a, b)) (m_added (getsd' st 0 a))) (m_modc0 st) in
  let removed := flat_map (fun a => map (fun b => (a, b)) (m_removed (getsd' st 0 a))) (m_modc0 st) in
  m_db (mflush st) = filter (fun p => negb (existsb (key_eqb p) removed)) (m_db st) ++ added /\ m_modified (mflush st) = false /\
  m_modc0 (mflush st) = [] /\ m_modc1 (mflush st) = [].
Proof. exact m2m_flush_rows. Qed.
Print Assumptions C09_m2m_flush_rows.

Example C09_m2m_nonvacuous :
  let st0 := minit 2 2 [(1, 1)]%nat in
  let ops := [MRead 0 1; MAdd 0 1 [2]; MRead 1 2; MRemove 1 1 [1]; MRead 0 1; MFlush]%nat in
  m_dirty (mrun st0 ops) = 0%nat /\
  snd (mstep (mrun st0 [MRead 0 1; MAdd 0 1 [2]]%nat) (MRead 1 2)) = MList [1]%nat /\
  m_db (mrun st0 ops) = [(1, 2)]%nat /\ m_committed (mrun st0 ops) = [(1, 1)]%nat /\
  m_db (fst (mstep (mrun st0 ops) MRollback)) = [(1, 1)]%nat.
Proof. vm_compute. repeat split; reflexivity. Qed.
