(* C23 - The loading strategy never changes the data a program observes.
   Only the pure part is proved here: the WHERE criteria built by construct_batchload_criteria_list select exactly the
   rows whose key is one of the batch keys, in all four shapes ('=' per column, IN, row-value IN, OR of ANDs).  The rest of
   the property (merging of the fetched rows into partially loaded objects and collections) is checked differentially. *)
Require Import PonyV.Base.PyBase PonyV.Model.C23Batch PonyV.Model.C23SetData PonyV.Gen.ContainsOrder PonyV.Model.C23Load PonyV.Proofs.C23Proofs PonyV.Proofs.C23SetProofs PonyV.Proofs.C23LoadProofs PonyV.Model.C23Scalar PonyV.Proofs.C23ScalarProofs.

Theorem C23_batch_criteria : forall (args : list (list Z)) (row : nat -> Z) (ncols start : nat) (keys : list (list Z)),
  (forall i, (i < length keys)%nat -> nth (i + start) args [] = nth i keys []) ->     (* the batch occupies args[start ..] *)
  (forall k, In k keys -> length k = ncols) ->                                       (* every key has one value per column *)
  forall row_value_syntax, (1 <= length keys)%nat ->
  sem_all args row (construct ncols (length keys) start row_value_syntax) = true <-> In (map row (seq 0 ncols)) keys.
Proof. exact batch_criteria. Qed.
Print Assumptions C23_batch_criteria.

(* Membership answered from memory (the early-exit checks of SetInstance.__contains__ in the order found in the source,
   Gen/ContainsOrder.v): for every SetData (partially loaded or not, with or without a negative cache) and every item, after
   an in-session add (from either side) the answer is never False, after a remove never True; None = the database is asked. *)
Theorem C23_contains_after_add : forall sd x, contains_local contains_checks (sd_add sd x) x <> Some false.
Proof. exact contains_after_add. Qed.
Print Assumptions C23_contains_after_add.

Theorem C23_contains_after_remove : forall sd x, contains_local contains_checks (sd_remove sd x) x <> Some true.
Proof. exact contains_after_remove. Qed.
Print Assumptions C23_contains_after_remove.

(* ---------------------------------------------------------------- the collection core (Model/C23Load.v)
   rows = the link rows of the owner in the database, sd = its SetData; abstract rows sd = rows minus pending removals plus
   pending additions = what the program must see.  Inv rows sd = the SetData is consistent with the rows (checked as inv_b on
   every recorded real state by the correspondence run; inv_b implies Inv). *)

(* every loading path keeps the SetData consistent and does not change the abstract collection: a whole-collection load
   (Set.load, and what each member of an nplus1 batch or of prefetch_load_all receives), a load of just the asked items, a flush *)
Theorem C23_load_full : forall rows sd, Inv rows sd ->
  Inv rows (load_full rows sd) /\ abstract rows (load_full rows sd) = abstract rows sd /\
  (forall x, In x (sd_items (load_full rows sd)) <-> In x (abstract rows sd)).
Proof. exact load_full_spec. Qed.
Print Assumptions C23_load_full.

(* a batch gives every collection ITS OWN rows and ITS OWN count *)
Theorem C23_load_batch : forall batch,
  (forall rs, In rs batch -> Inv (fst rs) (snd rs)) ->
  forall rs, In rs batch ->
    In (load_full (fst rs) (snd rs)) (load_batch batch) /\
    Inv (fst rs) (load_full (fst rs) (snd rs)) /\
    sd_count (load_full (fst rs) (snd rs)) = Some (Z.of_nat (length (abstract (fst rs) (snd rs)))).
Proof. exact load_batch_own. Qed.
Print Assumptions C23_load_batch.

Theorem C23_load_items : forall rows xs sd, NoDup xs -> Inv rows sd ->
  Inv rows (load_for rows xs sd) /\ abstract rows (load_for rows xs sd) = abstract rows sd.
Proof. exact load_items_spec. Qed.
Print Assumptions C23_load_items.

Theorem C23_flush : forall rows sd, Inv rows sd ->
  Inv (flush_rows rows sd) (flush_sd sd) /\ abstract (flush_rows rows sd) (flush_sd sd) = abstract rows sd.
Proof. exact flush_spec. Qed.
Print Assumptions C23_flush.

(* what the program observes is a function of the abstract collection (and the state stays consistent) *)
Theorem C23_iteration_len : forall rows sd, Inv rows sd ->
  let r := do_copy rows sd in
  same_set (fst r) (abstract rows sd) /\ length (fst r) = length (abstract rows sd) /\
  Inv (fst (snd r)) (snd (snd r)) /\ abstract (fst (snd r)) (snd (snd r)) = abstract rows sd.
Proof. exact do_copy_spec. Qed.
Print Assumptions C23_iteration_len.

Theorem C23_count : forall rows sd, Inv rows sd ->
  let r := do_count rows sd in
  fst r = Z.of_nat (length (abstract rows sd)) /\ Inv rows (snd r) /\ abstract rows (snd r) = abstract rows sd.
Proof. exact do_count_spec. Qed.
Print Assumptions C23_count.

Theorem C23_contains : forall x rows sd, Inv rows sd ->
  let r := do_contains x rows sd in
  (fst r = true <-> In x (abstract rows sd)) /\ Inv (fst (snd r)) (snd (snd r)) /\
  abstract (fst (snd r)) (snd (snd r)) = abstract rows sd.
Proof. exact do_contains_spec. Qed.
Print Assumptions C23_contains.

Theorem C23_is_empty : forall first rows sd,
  (forall l r, first l = Some r -> In r l) -> (forall l, first l = None -> l = []) ->
  Inv rows sd ->
  let r := do_is_empty first rows sd in
  (fst r = true <-> abstract rows sd = []) /\ Inv (fst (snd r)) (snd (snd r)) /\
  same_set (abstract (fst (snd r)) (snd (snd r))) (abstract rows sd).
Proof. exact do_is_empty_spec. Qed.
Print Assumptions C23_is_empty.

(* add / remove (with their internal loads) change the abstract collection by exactly that item *)
Theorem C23_add : forall x rows sd, Inv rows sd ->
  Inv rows (do_add x rows sd) /\ (forall y, In y (abstract rows (do_add x rows sd)) <-> In y (abstract rows sd) \/ y = x).
Proof. exact do_add_spec. Qed.
Print Assumptions C23_add.

Theorem C23_remove : forall x rows sd, Inv rows sd ->
  Inv rows (do_remove x rows sd) /\ (forall y, In y (abstract rows (do_remove x rows sd)) <-> In y (abstract rows sd) /\ y <> x).
Proof. exact do_remove_spec. Qed.
Print Assumptions C23_remove.

(* one-to-many collections (g.students): load_full, do_copy, do_count, do_is_empty are the same code and the theorems above apply;
   add of an item whose reference attribute is loaded (Hlink = what db_reverse_add established when the item was loaded): *)
Theorem C23_add_o2m : forall loaded x rows sd, Inv rows sd -> loaded x = true ->
  (In x rows -> In x (sd_items sd) \/ In x (sd_removed sd)) ->
  Inv rows (do_add_o loaded x rows sd) /\ (forall y, In y (abstract rows (do_add_o loaded x rows sd)) <-> In y (abstract rows sd) \/ y = x).
Proof. exact do_add_o_spec. Qed.
Print Assumptions C23_add_o2m.

(* remove on a one-to-many collection (since /repo 11753a1 the SetData is updated once, through reverse_remove; do_remove_o, the model of
   the double bookkeeping before that commit, is kept in Model/C23Load.v only so that a revert is recognised) *)
Theorem C23_remove_o2m : forall loaded x rows sd, Inv rows sd -> loaded x = true ->
  (In x rows -> In x (sd_items sd) \/ In x (sd_removed sd)) ->
  Inv rows (do_remove_o_fixed loaded x rows sd) /\
  (forall y, In y (abstract rows (do_remove_o_fixed loaded x rows sd)) <-> In y (abstract rows sd) /\ y <> x).
Proof. exact do_remove_o_fixed_spec. Qed.
Print Assumptions C23_remove_o2m.

(* both sides of the one-to-many relationship (ostate = rows + the owner's SetData + which items have their reference attribute loaded):
   LInv = Inv + the link invariant (a loaded item whose row points to the owner is a known member or a pending removal; pending
   additions and removals are loaded items).  It is what the hypothesis Hlink of C23_add_o2m / C23_remove_o2m asks for, and it is
   maintained by every transition: an item's row being fetched (db_reverse_add), a whole-collection load, a flush, add and remove *)
Theorem C23_o2m_item_loaded : forall x st, LInv st -> LInv (load_item x st) /\ oabstract (load_item x st) = oabstract st.
Proof. exact load_item_LInv. Qed.
Print Assumptions C23_o2m_item_loaded.

Theorem C23_o2m_load_full : forall st, LInv st -> LInv (o_load_full st) /\ oabstract (o_load_full st) = oabstract st.
Proof. exact o_load_full_LInv. Qed.
Print Assumptions C23_o2m_load_full.

Theorem C23_o2m_flush : forall st, LInv st -> LInv (o_flush st) /\ oabstract (o_flush st) = oabstract st.
Proof. exact o_flush_LInv. Qed.
Print Assumptions C23_o2m_flush.

Theorem C23_o2m_add : forall x st, LInv st -> In x (os_loaded st) ->
  LInv (o_add x st) /\ (forall y, In y (oabstract (o_add x st)) <-> In y (oabstract st) \/ y = x).
Proof. exact o_add_LInv. Qed.
Print Assumptions C23_o2m_add.

Theorem C23_o2m_remove : forall x st, LInv st -> In x (os_loaded st) ->
  LInv (o_remove x st) /\ (forall y, In y (oabstract (o_remove x st)) <-> In y (oabstract st) /\ y <> x).
Proof. exact o_remove_LInv. Qed.
Print Assumptions C23_o2m_remove.

Theorem C23_o2m_checked_invariant : forall st, linv_b st = true -> LInv st.
Proof. exact linv_b_LInv. Qed.
Print Assumptions C23_o2m_checked_invariant.

(* hence: two consistent views of the same abstract collection, whatever loading paths (and flushes) produced them, give the
   same iteration contents, len, count, membership answers and is_empty *)
Theorem C23_collection_path_independent : forall first rows1 sd1 rows2 sd2 x,
  (forall l r, first l = Some r -> In r l) -> (forall l, first l = None -> l = []) ->
  Inv rows1 sd1 -> Inv rows2 sd2 -> same_set (abstract rows1 sd1) (abstract rows2 sd2) ->
  same_set (fst (do_copy rows1 sd1)) (fst (do_copy rows2 sd2)) /\
  length (fst (do_copy rows1 sd1)) = length (fst (do_copy rows2 sd2)) /\
  fst (do_count rows1 sd1) = fst (do_count rows2 sd2) /\
  fst (do_contains x rows1 sd1) = fst (do_contains x rows2 sd2) /\
  fst (do_is_empty first rows1 sd1) = fst (do_is_empty first rows2 sd2).
Proof. exact observations_path_independent. Qed.
Print Assumptions C23_collection_path_independent.

Theorem C23_checked_invariant : forall rows sd, inv_b rows sd = true -> Inv rows sd.
Proof. exact inv_b_Inv. Qed.
Print Assumptions C23_checked_invariant.

(* scalar attributes (Model/C23Scalar.v): after any sequence of row merges -- the object's own query, a seed batch, prefetch, lazy
   loads of other attributes -- a read returns the value written in this session, else the database value; lazy or not *)
Theorem C23_scalar_read : forall db lazy others a (loads : list (list nat)) o, sinv db o ->
  let o' := fold_left (fun acc attrs => db_set db attrs acc) loads o in
  fst (read db lazy others a o') = expected db o a.
Proof. exact read_after_loads. Qed.
Print Assumptions C23_scalar_read.

Example C23_nonvacuous :
  sem_all [[1; 2]; [3; 4]; [5; 6]]%Z (fun j => match j with O => 5 | _ => 6 end)%Z (construct 2 2 1 false) = true /\
  sem_all [[1; 2]; [3; 4]; [5; 6]]%Z (fun j => match j with O => 1 | _ => 2 end)%Z (construct 2 2 1 true) = false.
Proof. split; vm_compute; reflexivity. Qed.
