(* C23 - The loading strategy never changes the data a program observes.
   Only the pure part is proved here: the WHERE criteria built by construct_batchload_criteria_list select exactly the
   rows whose key is one of the batch keys, in all four shapes ('=' per column, IN, row-value IN, OR of ANDs).  The rest of
   the property (merging of the fetched rows into partially loaded objects and collections) is checked differentially. *)
Require Import PonyV.Base.PyBase PonyV.Model.C23Batch PonyV.Model.C23SetData PonyV.Gen.ContainsOrder PonyV.Proofs.C23Proofs PonyV.Proofs.C23SetProofs.

Theorem C23_batch_criteria : forall (args : list (list Z)) (row : nat -> Z) (ncols start : nat) (keys : list (list Z)),
  (forall i, (i < length keys)%nat -> nth (i + start) args [] = nth i keys []) ->     (* the batch occupies args[start ..] *)
  (forall k, In k keys -> length k = ncols) ->                                       (* every key has one value per column *)
  forall row_value_syntax, (1 <= length keys)%nat ->
  sem_all args row (construct ncols (length keys) start row_value_syntax) = true <-> In (map row (seq 0 ncols)) keys.
Proof. exact batch_criteria. Qed.
Print Assumptions C23_batch_criteria.

(* Membership answered from memory (the early-exit checks of SetInstance.__contains__ in the order found in the source,
   Gen/ContainsOrder.v): for every SetData (partially loaded or not, with or without a negative cache) and every item, after
   an in-session add (from either side) the answer is never False, after a remove never True; None = the database is asked. *)
Theorem C23_contains_after_add : forall sd x, contains_local contains_checks (sd_add sd x) x <> Some false.
Proof. exact contains_after_add. Qed.
Print Assumptions C23_contains_after_add.

Theorem C23_contains_after_remove : forall sd x, contains_local contains_checks (sd_remove sd x) x <> Some true.
Proof. exact contains_after_remove. Qed.
Print Assumptions C23_contains_after_remove.

Example C23_nonvacuous :
  sem_all [[1; 2]; [3; 4]; [5; 6]]%Z (fun j => match j with O => 5 | _ => 6 end)%Z (construct 2 2 1 false) = true /\
  sem_all [[1; 2]; [3; 4]; [5; 6]]%Z (fun j => match j with O => 1 | _ => 2 end)%Z (construct 2 2 1 true) = false.
Proof. split; vm_compute; reflexivity. Qed.
