(* C24 - Query methods agree with list semantics of the full ordered result.
   Property theorems only: each is closed by `exact <lemma>`; Print Assumptions must report a closed term.
   combine_limit_and_offset, query_getitem, query_page, query_limit, query_fetch, select_distinct are re-translated from /repo on
   every run (Gen/C24Window.v); the composition (Model/C24Query.v) is tied to the implementation by the correspondence run.
   R = q_list q is list(q).  All bounds are arbitrary non-negative integers, all row lists / predicates / sort keys arbitrary. *)
Require Import PonyV.Base.PyBase PonyV.Base.Seg PonyV.Gen.C24Window PonyV.Model.C24Query
               PonyV.Proofs.C24Window PonyV.Proofs.C24Query PonyV.Model.C24Params PonyV.Proofs.C24Params PonyV.Model.C24More PonyV.Proofs.C24More.
From Coq Require Import Permutation.

(* limits of nested queries combine arithmetically into one LIMIT/OFFSET that selects the window of the window *)
Theorem C24_combine : forall (A : Type) (R : list A) (w1 w2 : window),
  window_ok w1 = true -> window_ok w2 = true ->
  win (combine w1 w2) R = win w2 (win w1 R).
Proof. exact @combine_win. Qed.
Print Assumptions C24_combine.

(* the arguments the theorem assumes are exactly the ones the implementation's asserts accept *)
Theorem C24_combine_pre : forall w1 w2, window_ok w1 = true -> window_ok w2 = true ->
  combine_pre (fst w1) (snd w1) (fst w2) (snd w2) = true /\ window_ok (combine w1 w2) = true.
Proof. exact combine_pre_and_ok. Qed.
Print Assumptions C24_combine_pre.

(* q[a:b]: Query.__getitem__ asks for a window that is Python's R[a:b], for omitted or non-negative bounds *)
Theorem C24_slice : forall (A : Type) (R : list A) (a b : option Z),
  bound_ok a -> bound_ok b ->
  exists w, query_getitem true a b None = Ok w /\ window_ok w = true /\ win w R = py_slice R a b.
Proof. exact @getitem_slice. Qed.
Print Assumptions C24_slice.

Theorem C24_page : forall (A : Type) (R : list A) (n size : Z),
  1 <= n -> 0 <= size ->
  exists w, query_page n size = Ok w /\ window_ok w = true /\ win w R = py_slice R (Some ((n - 1) * size)) (Some (n * size)).
Proof. exact @page_slice. Qed.
Print Assumptions C24_page.

Theorem C24_limit : forall (A : Type) (R : list A) (l o : option Z),
  bound_ok l -> bound_ok o ->
  exists w, query_limit l o = Ok w /\ query_fetch l o = Ok w /\ window_ok w = true /\
            win w R = py_slice R (Some (match o with None => 0 | Some v => v end))
                                 (match l with None => None | Some v => Some (match o with None => 0 | Some x => x end + v) end).
Proof. exact @limit_slice. Qed.
Print Assumptions C24_limit.

(* the LIMIT section emitted for SQLite / PostgreSQL / MySQL means that window *)
Theorem C24_limit_section : forall (A : Type) d (w : window) (R : list A),
  window_ok w = true -> (d = DMySQL -> zlen R <= mysql_no_limit) ->
  sem_limit_section d (limit_section d w) R = win w R.
Proof. exact @limit_section_sem. Qed.
Print Assumptions C24_limit_section.

Section OnQueries.
Context {A : Type} (eqb : A -> A -> bool) (eqb_spec : forall x y, eqb x y = true <-> x = y).

(* slicing, paging and limiting a query (which may itself iterate over limited subqueries) = the Python slice of list(q) *)
Theorem C24_getitem_list : forall (q : query) a b,
  window_ok (q_window q) = true -> bound_ok a -> bound_ok b ->
  q_getitem eqb q a b = Ok (py_slice (q_list eqb q) a b).
Proof. exact (getitem_list eqb). Qed.

Theorem C24_page_list : forall (q : query) n size,
  window_ok (q_window q) = true -> 1 <= n -> 0 <= size ->
  q_page eqb q n size = Ok (py_slice (q_list eqb q) (Some ((n - 1) * size)) (Some (n * size))).
Proof. exact (page_list eqb). Qed.

(* a query that iterates over q.limit(..)/q.page(..) sees that window of list(q); windows nest to any depth *)
Theorem C24_nested_except_known : forall (q : query) w1 w2,
  window_ok (q_window q) = true -> window_ok w1 = true -> window_ok w2 = true -> q_distinct q = None ->
  fetch eqb (nest q w1) w2 = win w2 (win w1 (q_list eqb q)).
Proof. exact (nest_list eqb). Qed.

Theorem C24_exists : forall (q : query), window_ok (q_window q) = true ->
  q_exists eqb q = match q_list eqb q with [] => false | _ => true end.
Proof. exact (exists_list eqb). Qed.

Theorem C24_get : forall (q : query), window_ok (q_window q) = true ->
  q_get eqb q = match q_list eqb q with [] => Ok None | [x] => Ok (Some x) | _ => Err 1%nat end.
Proof. exact (get_list eqb). Qed.

(* first() of an ordered query is R[0] (None when empty); explicit distinct() is outside this theorem (partial) *)
Theorem C24_first_partial : forall dflt (q : query),
  window_ok (q_window q) = true -> has_order q = true -> q_distinct q <> Some true ->
  q_first eqb dflt q = hd_error (q_list eqb q).
Proof. exact (first_list eqb). Qed.

(* first() of an unordered query adds an ordering: it returns a least selected row *)
Theorem C24_first_unordered : forall dflt (q : query) x,
  q_window q = no_window -> has_order q = false -> q_first eqb dflt q = Some x ->
  In x (filter (q_keep q) (q_rows q)) /\ forall y, In y (filter (q_keep q) (q_rows q)) -> row_leb dflt x y = true.
Proof. exact (first_unordered_min eqb). Qed.

(* filter()/where(): exactly the rows of R that satisfy the predicate, in the order of R -- for a query that does not iterate
   over a limited subquery (the complement is refuted in Findings/C24.v) *)
Theorem C24_filter_except_known : forall p (q : query), q_window q = no_window ->
  q_list eqb (add_filter p q) = filter p (q_list eqb q).
Proof. exact (filter_list eqb eqb_spec). Qed.

(* ordering a query only permutes its unordered result -- except when the order_by() switches the automatic DISTINCT off *)
Theorem C24_order_permutes_except_known : forall ks (q : query), q_window q = no_window ->
  has_order q = true \/ q_distinct q <> None \/ q_tdistinct q = false \/ ks = [] ->
  Permutation (q_list eqb (add_order ks q)) (q_list eqb q).
Proof. exact (order_permutes_except_known eqb). Qed.

Theorem C24_order_permutes_nodup : forall ks (q : query), q_window q = no_window -> NoDup (q_rows q) ->
  Permutation (q_list eqb (add_order ks q)) (q_list eqb q).
Proof. exact (order_permutes_nodup eqb eqb_spec). Qed.

Theorem C24_order_sorted : forall (q : query), q_window q = no_window -> ssorted (q_order q) (q_list eqb q).
Proof. exact (order_sorted eqb). Qed.

Theorem C24_distinct : forall (q : query), q_window q = no_window ->
  NoDup (q_list eqb (set_distinct true q)) /\ forall x, In x (q_list eqb (set_distinct true q)) <-> In x (q_list eqb q).
Proof. exact (distinct_list eqb eqb_spec). Qed.

(* bulk delete removes exactly the selected rows (rows are distinct objects, or the query runs without DISTINCT), whether or not
   the query iterates over a limited subquery *)
Theorem C24_bulk_delete : forall (q : query), (eff_distinct q = false \/ NoDup (q_rows q)) ->
  Permutation (bulk_deleted eqb q) (q_list eqb q) /\ plain_deleted eqb q = q_list eqb q.
Proof. exact (bulk_delete_both eqb eqb_spec). Qed.

End OnQueries.
Print Assumptions C24_getitem_list.
Print Assumptions C24_page_list.
Print Assumptions C24_nested_except_known.
Print Assumptions C24_exists.
Print Assumptions C24_get.
Print Assumptions C24_first_partial.
Print Assumptions C24_first_unordered.
Print Assumptions C24_filter_except_known.
Print Assumptions C24_order_permutes_except_known.
Print Assumptions C24_order_permutes_nodup.
Print Assumptions C24_order_sorted.
Print Assumptions C24_distinct.
Print Assumptions C24_bulk_delete.

(* count/sum/min/max/avg of a single integer column = the Python operation on R whenever the DISTINCT the aggregate function
   uses is the DISTINCT the query is executed with (sum of nothing is 0; min/max/avg of nothing are None) *)
Theorem C24_aggregate_except_known : forall f arg (q : query (A:=Z)), q_window q = no_window ->
  aggr_distinct f arg q = eff_distinct q ->
  q_aggregate f arg q = Ok (py_aggregate f (q_list Z.eqb q)).
Proof. exact aggregate_list. Qed.
Print Assumptions C24_aggregate_except_known.

Theorem C24_minmax : forall f arg (q : query (A:=Z)), q_window q = no_window -> f = AMin \/ f = AMax ->
  q_aggregate f arg q = Ok (py_aggregate f (q_list Z.eqb q)).
Proof. exact aggregate_minmax. Qed.
Print Assumptions C24_minmax.

Theorem C24_aggregate_empty : forall f arg (q : query (A:=Z)), q_window q = no_window -> filter (q_keep q) (q_rows q) = [] ->
  q_aggregate f arg q = Ok (match f with ASum | ACount => VInt 0 | _ => VNone end).
Proof. exact aggregate_empty. Qed.
Print Assumptions C24_aggregate_empty.

Theorem C24_group_concat_except_known : forall arg (q : query (A:=Z)), q_window q = no_window -> has_order q = false ->
  eff_distinct q = match arg with Some d => d | None => false end ->
  q_group_concat arg q = Ok (q_list Z.eqb q).
Proof. exact group_concat_list. Qed.
Print Assumptions C24_group_concat_except_known.

Theorem C24_count_pair : forall (q : query (A:=Z * Z)), q_window q = no_window ->
  q_count_pair None q = Ok (zlen (q_list zz_eqb q)).
Proof. exact count_pair_list. Qed.
Print Assumptions C24_count_pair.

(* non-vacuity: a concrete chain.  rows 5 3 5 1 4, WHERE x > 1, ORDER BY x, iterated through .limit(3, 1), then [1:] *)
Example C24_nonvacuous :
  q_getitem Z.eqb (nest (zquery [5; 3; 5; 1; 4] (fun x => 1 <? x) true false None no_window) (Some 3, Some 1)) (Some 1) None
  = Ok [5; 5]
  /\ q_list Z.eqb (zquery [5; 3; 5; 1; 4] (fun x => 1 <? x) true false None no_window) = [3; 4; 5; 5].
Proof. split; vm_compute; reflexivity. Qed.

Theorem C24_count_entities : forall (A : Type) (eqb : A -> A -> bool), (forall x y, eqb x y = true <-> x = y) ->
  forall q : query (A:=A), q_window q = no_window -> NoDup (q_rows q) -> q_count_rows q = Ok (zlen (q_list eqb q)).
Proof. exact @count_rows_list. Qed.
Print Assumptions C24_count_entities.

(* the two repaired cases, on the inputs that used to fail: a bulk delete over q.limit(2) removes the two selected rows; three
   distinct pairs are counted as three *)
Example C24_repaired_cases :
  bulk_deleted Z.eqb (nest (zquery [1; 2; 3] (fun _ => true) false false None no_window) (Some 2, None)) = [1; 2] /\
  q_count_pair None (zzquery [(1, 1); (1, 2); (2, 1)] (fun _ => true) false true None no_window) = Ok 3.
Proof. split; vm_compute; reflexivity. Qed.

(* chained filter()/where() steps whose lambdas capture values -- also when all steps share ONE code object (a helper applied
   several times): each step reads its own value (the key of a captured value contains the filter number, which every step advances:
   next_filter_num / clone_passes_filter_num are scanned from Query._process_lambda), so the chain is the successive Python filters *)
Theorem C24_chained_lambda_steps : forall (A : Type) (rows : list A) (l : list (@step A)),
  pq_list (apply_steps l (pq_base rows)) = py_filters l rows.
Proof. exact @chained_filters. Qed.
Print Assumptions C24_chained_lambda_steps.

Example C24_chained_nonvacuous :      (* one code object (0), captured values 1 then 3: rows > 1 and > 3 *)
  pq_list (apply_steps [(0%nat, fun v x => v <? x, 1); (0%nat, fun v x => v <? x, 3)] (pq_base [5; 2; 4; 1])) = [5; 4].
Proof. vm_compute. reflexivity. Qed.

(* ---- random(), first() under DISTINCT, count() variants, Oracle, and the merge rule of limited subqueries ---- *)

(* random(n) = the first n rows of a permutation of R: a sub-multiset of R of size min(n, |R|) (when the order_by it adds leaves
   the DISTINCT decision alone: see the finding on automatic DISTINCT) *)
Theorem C24_random_except_known : forall (A : Type) (eqb : A -> A -> bool) (rk : A -> Z) (n : Z) (q : query (A:=A)),
  q_window q = no_window -> 0 <= n -> eff_distinct (add_order [rk] q) = eff_distinct q ->
  exists R', Permutation R' (q_list eqb q) /\ q_random eqb rk n q = firstn (Z.to_nat n) R' /\
             length (q_random eqb rk n q) = Nat.min (Z.to_nat n) (length (q_list eqb q)).
Proof. exact @random_sample. Qed.
Print Assumptions C24_random_except_known.

(* first() of an ordered query is R[0] also after an explicit distinct(), when the ORDER BY keys identify the row *)
Theorem C24_first_distinct : forall (A : Type) (eqb : A -> A -> bool), (forall x y, eqb x y = true <-> x = y) ->
  forall dflt (q : query (A:=A)), q_window q = no_window -> has_order q = true -> antisym (q_order q) ->
  q_first eqb dflt q = hd_error (q_list eqb q).
Proof. exact @first_list_distinct. Qed.
Print Assumptions C24_first_distinct.

(* count() and count(distinct=False) of a tuple query = len(list(q)) whatever DISTINCT the query runs with *)
Theorem C24_count_pair_variants : forall arg (q : query (A:=Z * Z)), q_window q = no_window -> arg <> Some true ->
  q_count_pair arg q = Ok (zlen (q_list zz_eqb q)).
Proof. exact count_pair_list_gen. Qed.
Print Assumptions C24_count_pair_variants.

(* Oracle: the nested ROWNUM selects OraBuilder.SELECT writes mean the window, LIMIT 0 included *)
Theorem C24_oracle_rownum : forall (A : Type) (w : window) (R : list A),
  window_ok w = true -> ora_sem (ora_select (ora_section w)) R = win w R.
Proof. exact @ora_limit_sem. Qed.
Print Assumptions C24_oracle_rownum.

(* The merge rule.  process_query_qual does not nest a limited subquery: it extends the inner query, so an outer condition joins
   the inner WHERE and the combined window is applied afterwards (C24_merged_filter: what the code does).  That IS the nested list
   semantics exactly when the combined window keeps every row or none (C24_merged_filter_ok / _order_ok), and for EVERY other
   window there are rows and a condition on which it is not (C24_merged_filter_differs): the limited-subquery findings are this
   complement, not a list of observed cases. *)
Theorem C24_merged_filter : forall (A : Type) (eqb : A -> A -> bool), (forall x y, eqb x y = true <-> x = y) ->
  forall p (q : query (A:=A)) w, window_ok (q_window q) = true -> window_ok w = true ->
  q_list eqb (add_filter p (nest q w)) = win (combine (q_window q) w) (filter p (full eqb (nest q w))).
Proof. exact @merged_filter. Qed.
Print Assumptions C24_merged_filter.

Theorem C24_merged_filter_ok : forall (A : Type) (eqb : A -> A -> bool), (forall x y, eqb x y = true <-> x = y) ->
  forall p (q : query (A:=A)) w, window_ok (q_window q) = true -> window_ok w = true ->
  transparent (combine (q_window q) w) || empty_window (combine (q_window q) w) = true ->
  q_list eqb (add_filter p (nest q w)) = filter p (q_list eqb (nest q w)).
Proof. exact @merged_filter_ok. Qed.
Print Assumptions C24_merged_filter_ok.

Theorem C24_merged_order_ok : forall (A : Type) (eqb : A -> A -> bool) ks (q : query (A:=A)) w,
  window_ok (q_window q) = true -> window_ok w = true ->
  transparent (combine (q_window q) w) || empty_window (combine (q_window q) w) = true ->
  eff_distinct (add_order ks (nest q w)) = eff_distinct (nest q w) ->
  Permutation (q_list eqb (add_order ks (nest q w))) (q_list eqb (nest q w)).
Proof. exact @merged_order_ok. Qed.
Print Assumptions C24_merged_order_ok.

Theorem C24_merged_filter_differs : forall w : window, window_ok w = true -> transparent w = false -> empty_window w = false ->
  exists rows p, q_list Z.eqb (add_filter p (nest (plainq rows) w)) <> filter p (q_list Z.eqb (nest (plainq rows) w)).
Proof. exact merged_filter_differs. Qed.
Print Assumptions C24_merged_filter_differs.

(* count() of a single-column query = len(list(q)) for every query: COUNT uses the DISTINCT the query itself runs with
   (count_default_follows_query = true, scanned from construct_sql_ast) *)
Theorem C24_count_scalar : forall q : query (A:=Z), q_window q = no_window ->
  q_aggregate ACount None q = Ok (py_aggregate ACount (q_list Z.eqb q)).
Proof. exact count_scalar_list_now. Qed.
Print Assumptions C24_count_scalar.
