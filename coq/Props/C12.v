(* C12 - Both ends of every relationship stay consistent.
   Property theorems only: each is closed by `exact <lemma>`; Print Assumptions must report a closed term.

   Scope: Stage 1 of DESIGN Appendix A (many-to-one references and their one-to-many collections, Pony's default cascade
   rules), all operations of Model/Session.v, every well-formed schema and every operation list.  The views used in the
   statement (Proofs/SessionRel.v): vref s b a = the object the loaded reference b.a points to; vitems s x r = the members of
   the SetData of x.r (the loaded view; the pending added/removed sets are bookkeeping of that same set); vlive = not
   marked_to_delete / deleted / cancelled.  `s_dirty s = 0` excludes histories that reached a dirty site (known defects of
   the unchanged code, see Findings/C12.v, and assertion sites), as in C11. *)
Require Import PonyV.Model.SessionBase PonyV.Model.SessionDb PonyV.Model.Session PonyV.Proofs.SessionIdx PonyV.Proofs.SessionRel.

(* Inv_rel: (typing) a loaded reference points to an existing object of the target entity; (ref => member) a live object
   with b.a = x is a member of x.r; (member => ref) every member b of x.r is live and has a reference attribute with
   reverse r whose value is x. *)
Theorem C12_both_ends_except_known : forall sch, wf_schema sch = true ->
  forall ops, s_dirty (run sch ops) = O -> Inv_rel sch (run sch ops).
Proof. exact rel_invariant_all_histories. Qed.
Print Assumptions C12_both_ends_except_known.

(* the inductive step for every operation from every state (together with the C11 invariants it relies on) *)
Theorem C12_step_preserves : forall sch, wf_schema sch = true ->
  forall s op, Pkr sch s -> Pkr sch (fst (step sch s op)).
Proof. exact Pkr_step. Qed.
Print Assumptions C12_step_preserves.

(* the two directions in the words of the property: b in a.coll  <->  b.ref = a, for live b *)
Theorem C12_member_iff_reference_except_known : forall sch, wf_schema sch = true ->
  forall ops b a t r x, s_dirty (run sch ops) = O ->
  vlive (run sch ops) b = true -> is_ref_of sch (run sch ops) b a t r ->
  (vref (run sch ops) b a = Some x -> In b (vitems (run sch ops) x r)) /\
  (In b (vitems (run sch ops) x r) -> exists a' t', is_ref_of sch (run sch ops) b a' t' r /\ vref (run sch ops) b a' = Some x).
Proof.
  intros sch WF ops b a t r x D L RI. destruct (rel_invariant_all_histories sch WF ops D) as (_ & R1 & R2). split.
  - intro V. exact (R1 b a t r x L RI V).
  - intro M. exact (proj2 (R2 x r b M)).
Qed.
Print Assumptions C12_member_iff_reference_except_known.

Example C12_nonvacuous :
  let sch := [mkEnt false [mkAttr (KSet 1 0) false false]; mkEnt true [mkAttr (KRef 0 0) false false; mkAttr KInt true false]] in
  let s := run sch [ONew 0 (Some 1%Z) []; ONew 0 (Some 2%Z) []; ONew 1 None [(0, AObj 0); (1, AInt 5%Z)]; OCommit;
                    OSet 2 0 (AObj 1); OAssign 0 0 [2]; ONewSession; OGetPk 1 (AInt 1%Z); ORead 0 0; ORead 1 0]%nat in
  wf_schema sch = true /\ s_dirty s = O /\ vref s 1%nat 0%nat = Some 0%nat /\ vitems s 0%nat 0%nat = [1%nat].
Proof. vm_compute. repeat split; reflexivity. Qed.
