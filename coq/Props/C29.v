(* C29 - JSON and array operations in queries match Python semantics.
   Property theorems only (closed by `exact <lemma>`).  [uw] is the oracle for Python's \w beyond ASCII. *)
From Coq Require Import ZArith List Bool Lia.
Require Import PonyV.Base.PyBase PonyV.Base.Seg PonyV.Model.C29Json PonyV.Proofs.C29Proofs.
#[local] Open Scope Z_scope.

(* the path text SQLBuilder.eval_json_path builds is read back by sqlite._parse_path as the same keys: all ints (negative too),
   all str keys without a double quote (identifier-like or not, empty, with dots, spaces, brackets, non-ASCII) *)
Theorem C29_path_roundtrip_except_known : forall uw keys,
  forallb key_ok keys = true -> parse_path uw (json_path uw keys) = Some keys.
Proof. exact path_roundtrip. Qed.
Print Assumptions C29_path_roundtrip_except_known.

(* _traverse returns a value exactly where indexing the decoded Python value returns it; where Python raises the SQL value is NULL
   (or the TypeError escapes the fallback function: list indexed by a str) *)
Theorem C29_traverse : forall v keys x, traverse v keys = TVal x <-> py_path v keys = Some x.
Proof. exact traverse_py. Qed.
Print Assumptions C29_traverse.
Theorem C29_traverse_raises_only_where_python_raises : forall v keys, traverse v keys = TRaise -> py_path v keys = None.
Proof. exact traverse_raise_py. Qed.
Print Assumptions C29_traverse_raises_only_where_python_raises.

(* key membership and length after a path *)
Theorem C29_contains : forall v keys k x, py_path v keys = Some x -> json_contains_sql v keys k = json_contains x k.
Proof. exact contains_py. Qed.
Print Assumptions C29_contains.
Theorem C29_len_except_known : forall v keys l, py_path v keys = Some (JList l) -> json_len_sql v keys = py_len (JList l).
Proof. exact len_py. Qed.
Print Assumptions C29_len_except_known.

(* JSON truthiness by the textual NOT IN list (with 0.0 / -0.0 since fix 8c0b3e1) = Python truthiness, for every value except a float
   zero spelled differently from json.dumps (0.00 ...), which only a document written by something else can contain *)
Theorem C29_nonzero : forall v, float_wf v = true -> odd_zero_float v = false -> json_nonzero v = py_truthy v.
Proof. exact nonzero_truthy. Qed.
Print Assumptions C29_nonzero.
(* PostgreSQL (documented jsonb semantics, not executed): jsonb equality compares numbers numerically, so the six-literal list is complete *)
Theorem C29_nonzero_postgresql : forall v, pg_json_nonzero v = py_truthy v.
Proof. exact pg_nonzero_truthy. Qed.
Print Assumptions C29_nonzero_postgresql.

(* arrays on SQLite: since fix 3338ea9 ArrayMixin._index passes indexes and bounds through and py_array_index / py_array_slice are
   Python indexing / slicing (Base/Seg.py_slice) of the decoded list: for every index and every pair of bounds *)
Theorem C29_array_index_sqlite : forall (l : list Z) v, sqlite_array_index l v = arr_get l v.
Proof. exact sqlite_index_ok. Qed.
Print Assumptions C29_array_index_sqlite.
Theorem C29_array_slice_sqlite : forall (l : list Z) a b, sqlite_array_slice l a b = py_slice l a b.
Proof. exact sqlite_slice_ok. Qed.
Print Assumptions C29_array_slice_sqlite.

(* PostgreSQL (documented subscript semantics, not executed): both branches of _index agree, and the 1-based subscripts are right for
   every index and every pair of bounds *)
Theorem C29_index_forms : forall p len v, 0 <= p <= 1 -> index_const p len v = index_expr p len v.
Proof. exact index_forms. Qed.
Print Assumptions C29_index_forms.
Theorem C29_array_index_postgresql : forall (l : list Z) v, pg_array_index l v = arr_get l v.
Proof. exact pg_index_ok. Qed.
Print Assumptions C29_array_index_postgresql.
Theorem C29_array_slice_postgresql : forall (l : list Z) a b, pg_array_slice l a b = py_slice l a b.
Proof. exact pg_slice_ok. Qed.
Print Assumptions C29_array_slice_postgresql.

(* e.j[path] == constant (CAST of json_extract): right whenever the stored value has the constant's type (or is a bool / null) *)
Theorem C29_eq_int_except_known : forall z c, json_eq_int (JInt z) c = py_eq_int (JInt z) c.
Proof. exact eq_int_on_ints. Qed.
Print Assumptions C29_eq_int_except_known.
Theorem C29_eq_str_except_known : forall t s, json_eq_str (JStr t) s = py_eq_str (JStr t) s.
Proof. exact eq_str_on_strs. Qed.
Print Assumptions C29_eq_str_except_known.

(* the key under which build_json_path registers the bind parameter of a parameterised path determines the path: two paths of one query
   that get the same key are the same path, so sharing the parameter is harmless (the key itself is compared with the real
   build_json_path on every run) *)
Theorem C29_paramkey_sound : forall p q, paramkey p = paramkey q -> p = q.
Proof. exact paramkey_sound. Qed.
Print Assumptions C29_paramkey_sound.
Theorem C29_paramkey_same_path : forall p q, paramkey p = paramkey q -> forall env, resolve env p = resolve env q.
Proof. exact paramkey_same_path. Qed.
Print Assumptions C29_paramkey_same_path.

(* e.j[p] == e.j[q] between two JSON items (both sides are JSON texts on SQLite): for two ints the texts are equal iff the ints are
   (decimal printing is injective); ordering (<) of two items is the recorded finding json-items-ordered-as-text *)
Theorem C29_items_eq_ints : forall a b, json_items_eq (JInt a) (JInt b) = (a =? b).
Proof. exact items_eq_ints. Qed.
Print Assumptions C29_items_eq_ints.

(* PostgreSQL (documented array-literal syntax, not executed): the text[] literal written for  expr #> path  is read back as the texts of
   the path steps -- ints as decimal text, str keys as they are, a double quote inside a key included -- for keys without a backslash
   and identifier-like keys that are not spelled NULL *)
Theorem C29_pg_path_except_known : forall uw keys, forallb (pg_key_ok uw) keys = true ->
  pg_array (pg_json_path uw keys) = Some (map (fun k => PText (pg_key_text k)) keys).
Proof. exact pg_path_roundtrip. Qed.
Print Assumptions C29_pg_path_except_known.

Example C29_nonvacuous :
  parse_path ascii_only (json_path ascii_only [KKey [97]; KIdx (-12); KKey [100; 46; 101]; KKey []; KKey [49; 97]])
    = Some [KKey [97]; KIdx (-12); KKey [100; 46; 101]; KKey []; KKey [49; 97]]
  /\ traverse (JDict [([97], JList [JInt 1; JDict [([], JStr [120])]])]) [KKey [97]; KIdx (-1); KKey []] = TVal (JStr [120])
  /\ sqlite_array_slice [1; 2; 3; 4] (Some (-3)) (Some (-1)) = [2; 3].
Proof. repeat split; reflexivity. Qed.
