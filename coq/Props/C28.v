(* C28 - In-place changes to Json and array values are persisted.
   Property theorems only: each is closed by `exact <lemma>`; Print Assumptions must report a closed term.
   [wr_gen] / cpython_* / tracked_* are the tables regenerated from /repo's ormtypes.py and the running CPython on every run
   (Gen/Mutators.v); the statements quantify over all documents, all paths and all operation sequences.
   Since fix f0ecc86 (+=, *=, |= wrapped; extend / slice assignment listify their iterable) the statements are unconditional. *)
Require Import PonyV.Base.PyBase PonyV.Model.C28Tracked PonyV.Gen.Mutators PonyV.Model.C28Wrapped PonyV.Model.C28Multi PonyV.Proofs.C28Proofs PonyV.Proofs.C28MultiProofs.
#[local] Open Scope Z_scope.   (* (the line after Require must not start with an identifier: dependency scanner) *)

(* every container reachable from the attribute value is a Tracked* instance bound to one (object, attribute), after any
   sequence of mutations (every list / dict mutator, any iterable argument) at any depth, commits and re-loads in new sessions *)
Theorem C28_wrap_inv : forall ops o v, exists o', tagged o' (root (run wr_gen ops (load o v))) = true.
Proof. exact wrap_inv_gen. Qed.
Print Assumptions C28_wrap_inv.

(* the same for any table of wrapped methods: operations through wrapped methods keep the invariant *)
Theorem C28_wrap_inv_any_table : forall wr ops st,
  forallb (op_ok wr) ops = true -> well_tracked st -> synced st ->
  well_tracked (run wr ops st) /\ synced (run wr ops st).
Proof. exact run_inv. Qed.
Print Assumptions C28_wrap_inv_any_table.

(* a mutator applied at any path of a well-tracked value either raises and changes nothing or sets the write bit *)
Theorem C28_dirty : forall st p a,
  well_tracked st -> is_read a = false ->
  match update_at wr_gen p a (root st) with
  | Some _ => dirty (step wr_gen st (OAct p a)) = true
  | None => step wr_gen st (OAct p a) = st
  end.
Proof. exact dirty_gen. Qed.
Print Assumptions C28_dirty.

Theorem C28_value_changed_dirty : forall st p a,
  well_tracked st ->
  untrack (root (step wr_gen st (OAct p a))) <> untrack (root st) -> dirty (step wr_gen st (OAct p a)) = true.
Proof. exact value_changed_dirty_gen. Qed.
Print Assumptions C28_value_changed_dirty.

(* reading (any chain of __getitem__ and a non-mutating call) changes nothing: neither the value nor the write bit *)
Theorem C28_read_clean : forall st p, step wr_gen st (OAct p ARead) = st.
Proof. exact (read_clean wr_gen). Qed.
Print Assumptions C28_read_clean.

(* what the row holds after the final commit is the value the program sees, for all operation sequences *)
Theorem C28_persisted : forall ops o v,
  let st := commit (run wr_gen ops (load o v)) in dbval st = canon (untrack (root st)).
Proof. exact persisted_gen. Qed.
Print Assumptions C28_persisted.

(* every mutating method CPython's list / dict has is wrapped (or replaced) by TrackedList / TrackedDict / TrackedArray *)
Theorem C28_covered_list : forall s, In s cpython_list_mutators -> covered_list s = true.
Proof. exact covered_list_all. Qed.
Print Assumptions C28_covered_list.
Theorem C28_covered_dict : forall s, In s cpython_dict_mutators -> covered_dict s = true.
Proof. exact covered_dict_all. Qed.
Print Assumptions C28_covered_dict.
Theorem C28_covered_array : forall s, In s cpython_list_mutators -> covered_array s = true.
Proof. exact covered_array_all. Qed.
Print Assumptions C28_covered_array.

(* every method of the model is wrapped: in particular the three operators added by the fix *)
Theorem C28_all_wrapped : forall m, wr_gen m = true.
Proof. exact wr_gen_table. Qed.
Print Assumptions C28_all_wrapped.

(* the operation language of the model covers every CPython mutator *)
Theorem C28_model_complete_list : forall s, In s cpython_list_mutators -> In s modelled_list_names \/ In s tracked_list_overridden.
Proof. exact model_complete_list. Qed.
Print Assumptions C28_model_complete_list.
Theorem C28_model_complete_dict : forall s, In s cpython_dict_mutators -> In s modelled_dict_names \/ In s tracked_dict_overridden.
Proof. exact model_complete_dict. Qed.
Print Assumptions C28_model_complete_dict.

(* several owners (objects x Json attributes), values read from one and stored into another by any storing method: in every session
   each container reachable from slot i's root is bound to exactly the owner of slot i (winv), each row follows its own value, and the
   slot a value was only read from is left exactly as it was (value, tags, write bit) *)
Theorem C28_multi_wrap_inv : forall ops k docs, exists k', winv k' 0 (wrun wr_gen ops (wload_from k 0 docs)).
Proof. exact multi_wrap_inv. Qed.
Print Assumptions C28_multi_wrap_inv.
Theorem C28_multi_persisted : forall ops k docs,
  Forall (fun st => dbval (commit st) = canon (untrack (root (commit st)))) (wrun wr_gen ops (wload_from k 0 docs)).
Proof. exact multi_persisted. Qed.
Print Assumptions C28_multi_persisted.
Theorem C28_read_source_untouched : forall w src sp dst dp s, src <> dst ->
  nth_error (wstep wr_gen w (WCopy src sp dst dp s)) src = nth_error w src.
Proof. exact (copy_source_untouched wr_gen). Qed.
Print Assumptions C28_read_source_untouched.
Example C28_multi_nonvacuous :
  map (fun st => (dirty st, dbval (commit st))) (wrun wr_gen w_ops (wload_from 0 0 w_docs))
  = [(false, JDict [([116], JList [JNum 1; JNum 2])]); (true, JDict [([116], JList [JNum 1; JNum 2; JNum 3])])].
Proof. exact multi_sample. Qed.

(* non-vacuity: a three-level document, nested mutations incl. the formerly lost operators and a tuple iterable, a commit in the
   middle and a new session *)
Example C28_nonvacuous :
  let ops := [OAct [KKey [100]] (AD (DIOr [([121], JList [JDict []])]));
              OAct [KKey [100]; KKey [121]; KIdx 0] (AD (DUpdate [([122], JNum 5)]));
              OCommit;
              OAct [KKey [97]] (AL (LIAdd [JList [JNum 7]]));
              OAct [KKey [97]] (AL (LExtend false [JList []]));
              ONewSession (2%nat, 1%nat);
              OAct [KKey [97]; KIdx 2] (AL (LAppend JNull));
              OAct [KKey [97]; KIdx 3] (AL (LIMul 2))] in
  dbval (commit (run wr_gen ops (load o1 doc1)))
  = JDict [([97], JList [JNum 1; JNum 2; JList [JNum 7; JNull]; JList []]); ([100], JDict [([120], JNum 1); ([121], JList [JDict [([122], JNum 5)]])])].
Proof. vm_compute. reflexivity. Qed.
