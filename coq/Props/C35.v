(* C35 - Locked rows and serializable sessions cannot be overwritten concurrently.
   Property theorems only.  SQLite part: over the transaction / lock model Model/C19Txn.v (tied to /repo by the C19 / C35
   correspondence runs); SQL text: over Gen/C35ForUpdate.v, re-translated from /repo on every run.  PostgreSQL row locks and
   cross-process SQLite file locking are trusted (see notes/C35.md). *)
From Coq Require Import ZArith List Bool Arith.
Import ListNotations.
Require Import PonyV.Model.C19Txn PonyV.Proofs.C19Base PonyV.Proofs.C19Proofs2 PonyV.Proofs.C19Proofs3 PonyV.Proofs.C35Proofs PonyV.Gen.C35ForUpdate.
Local Open Scope nat_scope.

(* In every reachable state of any number of threads (any schedule, any faults): a session that holds objects loaded with
   for_update()/get_for_update() is in an immediate transaction and the provider lock is held; no other session of the
   process is in a transaction. *)
Theorem C35_sqlite_mutex : forall orc sh schedule i,
  let g := grun orc (g_init sh) schedule in
  0 < k_forupd (snd g i) ->
  fst g = true /\ k_intxn (snd g i) = true /\ k_imm (snd g i) = true /\
  forall j, j <> i -> k_intxn (snd g j) = false /\ mine (snd g j) = false.
Proof. intros orc sh schedule i g. apply ginv_forupd_mutex. apply grun_inv. apply GInv_init. Qed.
Print Assumptions C35_sqlite_mutex.

(* ... and while some thread i is in a transaction (holds locked rows, or is a serializable session that has read something),
   whatever another thread j does next, it either blocks or issues no write statement at all. *)
Theorem C35_no_concurrent_write : forall orc sh schedule i j a,
  let g := grun orc (g_init sh) schedule in
  mine (snd g i) = true -> j <> i ->
  let s := set_lock (fst g) (snd g j) in
  match tstep (orc j) a s with
  | (Blocked, _) => True
  | (_, s') => exists evs, trace s' = evs ++ trace s /\ forall e, In e evs -> is_write e = false /\ e_mine e = false
  end.
Proof. intros orc sh schedule i j a g. apply other_thread_no_write. apply grun_inv. apply GInv_init. Qed.
Print Assumptions C35_no_concurrent_write.

(* A serializable (also: immediate, ddl, optimistic=False) session: every statement it issues - reads included, under any
   faults - runs inside an open driver-level transaction (the flag is the one determined by a preceding successful BEGIN
   IMMEDIATE on that connection: flags_ok) with the provider lock held by this thread.  In particular its first statement
   is preceded by BEGIN IMMEDIATE. *)
Theorem C35_serializable_begin : forall oracle sh body s, shape_imm sh = true -> WF s -> k_reg s = false -> lock s = false ->
  exists r s' evs, run_session oracle sh body s = (r, s') /\ r <> Blocked /\ trace s' = evs ++ trace s /\ flags_ok (trace s') = true /\
    forall e, In e evs -> is_stmt e = true -> e_txn e = true /\ e_lock e = true /\ e_mine e = true.
Proof. exact serializable_lemma. Qed.
Print Assumptions C35_serializable_begin.

(* get_for_update(...) through any lookup route (primary key, unique key, composite key), whether or not the object already
   sits in the session cache and whether or not it is already locked (EntityMeta._find_in_cache_ uses a cached object only if it
   is in cache.for_update, otherwise it goes to _find_in_db_): when the call returns, under any faults, this session is in a
   transaction, holds the provider lock and counts a locked object - so C35_sqlite_mutex / C35_no_concurrent_write apply. *)
Theorem C35_get_for_update_locks : forall oracle cached locked s, WF s -> (locked = true -> 0 < k_forupd s) ->
  match run_op oracle (OGetFU cached locked) s with
  | (Ok, s') => k_intxn s' = true /\ mine s' = true /\ lock s' = true /\ 0 < k_forupd s'
  | _ => True
  end.
Proof. exact getfu_locks. Qed.
Print Assumptions C35_get_for_update_locks.

(* ... and through the one-to-one attribute that has no column (T.get_for_update(w=obj)): the object is found through the reverse
   attribute; if it is already locked it is returned (the session is in its transaction, lock held), otherwise the call fails
   loudly (NotImplementedError from _construct_sql_) without issuing any driver call.  The side that has the column
   (W.get_for_update(t=obj)) is an ordinary OGetFU after the lazy load of the reverse attribute. *)
Theorem C35_get_for_update_reverse : forall oracle locked s, WF s -> (locked = true -> 0 < k_forupd s) ->
  match run_op oracle (OGetFURev locked) s with
  | (Ok, s') => locked = true /\ k_intxn s' = true /\ mine s' = true /\ lock s' = true
  | (Err e, s') => locked = false /\ e = ENotImpl /\ trace s' = trace s
  | (Blocked, _) => False
  end.
Proof. exact getfu_rev_locks. Qed.
Print Assumptions C35_get_for_update_reverse.

(* SQL text: PostgreSQL / MySQL (SQLBuilder.SELECT_FOR_UPDATE) append FOR UPDATE [NOWAIT] [SKIP LOCKED]; SQLite appends nothing. *)
Theorem C35_for_update_sql : forall nowait skip,
  concat (generic_for_update nowait skip) = str_FOR_UPDATE ++ (if nowait then str_NOWAIT else []) ++ (if skip then str_SKIP_LOCKED else []) ++ [10%Z]
  /\ concat (sqlite_for_update nowait skip) = [].
Proof. exact for_update_text. Qed.
Print Assumptions C35_for_update_sql.

(* non-vacuity: a serializable session that locks a row and writes; thread 1 cannot start its write meanwhile *)
Example C35_nonvacuous :
  let g := grun (fun _ _ => false) (g_init (fun i => match i with 0 => ShSer | _ => ShOpt end)) [(0, AOp OForUpd); (1, AOp ORawWrite)] in
  fst g = true /\ k_forupd (snd g 0) = 1 /\ k_intxn (snd g 1) = false /\ trace (snd g 1) = [].
Proof. vm_compute. repeat split. Qed.
