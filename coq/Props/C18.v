(* C18 - A db_session commits exactly when its body succeeds.
   Property theorems only: each is closed by `exact <lemma>`; Print Assumptions must report a closed term.
   Model: Model/C18Session.v (hand-written, tied to /repo by the correspondence run); Gen/C18Web.v is re-read from /repo. *)
From Coq Require Import List Bool Arith.
Import ListNotations.
Require Import PonyV.Model.C18Session PonyV.Gen.C18Web PonyV.Proofs.C18Proofs.
Require Import PonyV.Model.C18Faults PonyV.Proofs.C18FaultProofs.
Require Import PonyV.Model.C18Obs.   (* observation functions of the correspondence run: built with this cone *)
#[local] Open Scope list_scope.   (* also keeps the cone scanner's regex from backtracking over the next long identifier *)

(* Decorated function called outside any session, for EVERY stream of attempt outcomes (poisoned?, finish | raise e), every
   retry count and every pair of predicates: with j = the last attempt executed,
   - exactly the writes of attempt j are committed, and only if `commits` (below) holds of it; nothing else ever is;
   - the session is closed and nothing is left pending;
   - the caller sees final_out (C18_propagates_ok, C18_propagates_raise);
   - the body ran for attempts 0..j, each time starting with 0 pending writes at counter 1, and every abandoned attempt was rolled back. *)
Theorem C18_commit_iff : forall (exc : Type) (should_retry : exc -> bool) (cfail : exc) (s : sess exc) str x,
  depth x = 0 -> pend x = [] ->
  let j := final_attempt exc should_retry cfail s str 0 (s_retry exc s) in
  let a := nth j str (dflt exc) in
  exists t',
    call_stream exc should_retry cfail s str x
    = (mkst 0 [] (comm x ++ if commits exc should_retry s a then [j] else []) (tr x ++ t'), final_out exc should_retry cfail s a)
    /\ runs t' = map (fun k => ERun k 0 1) (seq 0 (S j))
    /\ (forall k, k < j -> In (ERollback 1) t').
Proof. exact call_stream_top. Qed.
Print Assumptions C18_commit_iff.

(* `commits`: the attempt's commit does not fail and the body finished normally or raised an allowed exception that is not retried *)
Theorem C18_commits_meaning : forall (exc : Type) (should_retry : exc -> bool) (s : sess exc) p o,
  commits exc should_retry s (p, o) = true <->
  p = false /\ (o = Ok \/ exists e, o = Raise e /\ s_allowed exc s e = true /\ do_retry exc should_retry s e = false).
Proof. exact commits_true_iff. Qed.
Print Assumptions C18_commits_meaning.

(* retries: at most retry+1 executions; every attempt before the last ended with a retryable exception; the loop stops at the
   first attempt that does not, or when the attempts are used up *)
Theorem C18_retry_bound : forall (exc : Type) (should_retry : exc -> bool) (cfail : exc) (s : sess exc) str n i,
  i <= final_attempt exc should_retry cfail s str i n <= i + n.
Proof. exact final_attempt_range. Qed.
Print Assumptions C18_retry_bound.

Theorem C18_rerun_only_after_retryable : forall (exc : Type) (should_retry : exc -> bool) (cfail : exc) (s : sess exc) str n i k,
  i <= k < final_attempt exc should_retry cfail s str i n ->
  retried exc should_retry cfail s (nth k str (dflt exc)) = true.
Proof. exact final_attempt_retried_before. Qed.
Print Assumptions C18_rerun_only_after_retryable.

Theorem C18_retry_stops : forall (exc : Type) (should_retry : exc -> bool) (cfail : exc) (s : sess exc) str n i,
  retried exc should_retry cfail s (nth (final_attempt exc should_retry cfail s str i n) str (dflt exc)) = false
  \/ final_attempt exc should_retry cfail s str i n = i + n.
Proof. exact final_attempt_stops. Qed.
Print Assumptions C18_retry_stops.

(* the caller gets a normal return only from an attempt that finished and committed; a raised exception is never swallowed *)
Theorem C18_propagates_ok : forall (exc : Type) (should_retry : exc -> bool) (cfail : exc) (s : sess exc) p o,
  final_out exc should_retry cfail s (p, o) = Ok <-> p = false /\ o = Ok.
Proof. exact final_out_ok_iff. Qed.
Print Assumptions C18_propagates_ok.

Theorem C18_propagates_raise : forall (exc : Type) (should_retry : exc -> bool) (cfail : exc) (s : sess exc) p e,
  final_out exc should_retry cfail s (p, Raise e) = Raise e
  \/ (p = true /\ final_out exc should_retry cfail s (p, Raise e) = Raise cfail).
Proof. exact final_out_raise. Qed.
Print Assumptions C18_propagates_raise.

(* context manager around a leaf body, outside any session: commits iff the body finished or raised an allowed exception *)
Theorem C18_with : forall (exc : Type) (cfail : exc) (s : sess exc) i p o x,
  depth x = 0 -> pend x = [] ->
  let ok := can_commit exc s o in
  exists t',
    run_with exc cfail s (leaf exc i p o) x
    = (mkst 0 [] (comm x ++ if ok && negb p then [i] else []) (tr x ++ t'), if ok && p then Raise cfail else o)
    /\ runs t' = [ERun i 0 1].
Proof. exact with_leaf_top. Qed.
Print Assumptions C18_with.

(* nesting, for EVERY program built from leaves, sequencing, try/except, `with db_session(..)` and decorated calls: executed
   inside a live session it commits nothing and rolls nothing back (the trace grows by body events only), leaves the counter
   as it was, and adds exactly its writes to the pending set - whatever options the inner sessions carry *)
Theorem C18_nested : forall (exc : Type) (should_retry : exc -> bool) (cfail : exc) (is_exception : exc -> bool) (p : prog exc) x,
  depth x <> 0 ->
  exists t',
    run exc should_retry cfail is_exception p x
    = (mkst (depth x) (pend x ++ fst (writes exc is_exception p)) (comm x) (tr x ++ t'), snd (writes exc is_exception p))
    /\ forallb is_run t' = true.
Proof. exact run_inside. Qed.
Print Assumptions C18_nested.

Theorem C18_nested_call : forall (exc : Type) (should_retry : exc -> bool) (cfail : exc) (s : sess exc) str x,
  depth x <> 0 ->
  call_stream exc should_retry cfail s str x = stream_body exc str 0 x.
Proof. exact call_stream_nested. Qed.
Print Assumptions C18_nested_call.

(* only the outermost exit decides, over all writes made inside, and every commit/rollback comes after the whole body *)
Theorem C18_outermost : forall (exc : Type) (should_retry : exc -> bool) (cfail : exc) (is_exception : exc -> bool) (s : sess exc) (p : prog exc) x,
  depth x = 0 -> pend x = [] ->
  let w := fst (writes exc is_exception p) in
  let o := snd (writes exc is_exception p) in
  let ok := can_commit exc s o in
  let bad := existsb snd w in
  exists t1 tl,
    run exc should_retry cfail is_exception (PWith exc s p) x
    = (mkst 0 [] (comm x ++ if ok && negb bad then map fst w else []) (tr x ++ EBegin :: t1 ++ tl),
       if ok && bad then Raise cfail else o)
    /\ forallb is_run t1 = true /\ forallb is_txn tl = true.
Proof. exact with_outermost. Qed.
Print Assumptions C18_outermost.

(* generator sessions: after every resumption - suspended again, finished or failed - the session is closed and nothing is
   pending; committed data only grows *)
Theorem C18_generator_never_suspends_dirty : forall (exc : Type) (cfail must_commit : exc) steps x,
  depth x = 0 -> pend x = [] ->
  let r := grun exc cfail must_commit steps x in
  depth (fst r) = 0 /\ pend (fst r) = [] /\ exists l, comm (fst r) = comm x ++ l.
Proof. exact grun_inv. Qed.
Print Assumptions C18_generator_never_suspends_dirty.

(* one resumption that only writes: StopIteration commits; an exception (allowed or not) commits nothing and propagates;
   suspending with writes pending commits nothing and raises TransactionError *)
Theorem C18_generator_step : forall (exc : Type) (cfail must_commit : exc) ws e x,
  depth x = 0 -> pend x = [] ->
  let r := ginteract exc cfail must_commit (wops ws, e) x in
  match e with
  | GStop => comm (fst r) = comm x ++ (if existsb snd ws then [] else map fst ws)
             /\ snd r = Some (if existsb snd ws then Raise cfail else Ok)
  | GRaise e' => comm (fst r) = comm x /\ snd r = Some (Raise e')
  | GYield => comm (fst r) = comm x /\ snd r = match ws with [] => None | _ => Some (Raise must_commit) end
  end.
Proof. exact gstep_writes. Qed.
Print Assumptions C18_generator_step.

(* THE generator property: a resumption that ends without an exception (the generator suspends again, or finishes) has committed
   every write it made - flushed or not; so a generator is never suspended with an open transaction that something else on the
   thread could roll back, and "finished normally but the changes are gone" cannot happen *)
Theorem C18_generator_no_exception_all_committed : forall (exc : Type) (cfail must_commit : exc) ops e x,
  depth x = 0 -> pend x = [] ->
  let r := ginteract exc cfail must_commit (ops, e) x in
  (snd r = None \/ snd r = Some Ok) ->
  comm (fst r) = comm x ++ gwrites ops.
Proof. exact gstep_no_exception_all_committed. Qed.
Print Assumptions C18_generator_no_exception_all_committed.

(* "dirty" is the code's predicate `cache.modified or cache.in_transaction`: writes that were flushed (flush() or a query's
   auto-flush) keep the transaction open, suspending is refused and they are rolled back *)
Theorem C18_generator_flushed_then_yield : forall (exc : Type) (cfail must_commit : exc) ws x,
  depth x = 0 -> pend x = [] -> ws <> [] -> existsb snd ws = false ->
  let r := ginteract exc cfail must_commit (wops ws ++ [GFlush], GYield) x in
  comm (fst r) = comm x /\ snd r = Some (Raise must_commit) /\ pend (fst r) = [].
Proof. exact gstep_flushed_then_yield. Qed.
Print Assumptions C18_generator_flushed_then_yield.

Theorem C18_generator_manual_commit : forall (exc : Type) (cfail must_commit : exc) ws x,
  depth x = 0 -> pend x = [] -> existsb snd ws = false ->
  let r := ginteract exc cfail must_commit (wops ws ++ [GCommit], GYield) x in
  comm (fst r) = comm x ++ map fst ws /\ snd r = None /\ pend (fst r) = [].
Proof. exact gstep_commit_then_yield. Qed.
Print Assumptions C18_generator_manual_commit.

(* Bottle plugin, with is_allowed_exception as read from the source: commits iff the callback returned, or raised an
   HTTPResponse that is not an HTTPError (and is not retryable), see C18_commits_meaning *)
Theorem C18_bottle : forall (exc : Type) (should_retry : exc -> bool) (cfail : exc) (isinst_HTTPResponse isinst_HTTPError is_te : exc -> bool) p o x,
  depth x = 0 -> pend x = [] ->
  let s := bottle_sess exc (bottle_is_allowed isinst_HTTPResponse isinst_HTTPError) is_te in
  exists t',
    bottle_request exc should_retry cfail (bottle_is_allowed isinst_HTTPResponse isinst_HTTPError) is_te p o x
    = (mkst 0 [] (comm x ++ if commits exc should_retry s (p, o) then [0] else []) (tr x ++ t'), final_out exc should_retry cfail s (p, o))
    /\ runs t' = [ERun 0 0 1].
Proof. intros exc sr cf iH iE. exact (bottle_spec exc sr cf (bottle_is_allowed iH iE)). Qed.
Print Assumptions C18_bottle.

(* Flask integration as it is in /repo (flask_passes_exc_type is re-read from pony/flask/__init__.py on every run): a request is
   committed iff its view finished normally (and the commit itself did not fail); a view's exception reaches the caller *)
Theorem C18_flask : forall (exc : Type) (cfail : exc) p o x,
  depth x = 0 -> pend x = [] ->
  exists t',
    flask_request exc cfail flask_passes_exc_type (leaf exc 0 p o) x
    = (mkst 0 [] (comm x ++ match o with Ok => if p then [] else [0] | Raise _ => [] end) (tr x ++ t'),
       match o with Ok => if p then Raise cfail else Ok | Raise e => Raise e end).
Proof. exact flask_now. Qed.
Print Assumptions C18_flask.

(* the model's _commit_or_rollback is the decision skeleton read from /repo (Gen/C18Web.v: can_commit_src, action_src) *)
Theorem C18_commit_decision_matches_source : forall (exc : Type) (cfail : exc) (s : sess exc) o x,
  commit_or_rollback exc cfail s o x
  = match action_src (can_commit_src (s_allowed exc s) (match o with Ok => None | Raise e => Some e end)) with
    | ActCommit => do_commit exc cfail x
    | ActRollback => (do_rollback x, Ok)
    end.
Proof. exact commit_or_rollback_src. Qed.
Print Assumptions C18_commit_decision_matches_source.

(* faults of the machinery itself: the callables given as allowed_exceptions / retry_exceptions may raise, core.rollback() may raise.
   One attempt of a decorated function, for every combination: the session ends closed with nothing pending; the write is
   committed (b) only if the body finished or raised an exception the allowed-predicate accepted; a finished body with a working
   commit is committed and returns normally; no failure is ever turned into a normal return; another attempt follows only if the
   retry predicate said yes and rollback() worked - and then nothing was committed *)
Theorem C18_faults_attempt : forall (exc : Type) (cfail rbfail : exc) allowed retryable rb_ok i p o c t,
  let r := attempt_f exc cfail rbfail allowed retryable rb_ok (leaf exc i p o) (mkst 0 [] c t) in
  depth (fst r) = 0 /\ pend (fst r) = []
  /\ exists b : bool,
       comm (fst r) = c ++ (if b then [i] else [])
       /\ (b = true -> p = false /\ (o = Ok \/ is_yes exc allowed = true))
       /\ (o = Ok -> p = false -> b = true /\ snd r = ADone Ok)
       /\ (snd r = ADone Ok -> o = Ok /\ p = false)
       /\ (snd r = ARetry -> is_yes exc retryable = true /\ rb_ok = true /\ b = false).
Proof. exact attempt_f_safe. Qed.
Print Assumptions C18_faults_attempt.

(* the retry predicate raises: no further attempt, the body's own exception still decides commit or rollback, the caller sees the
   predicate's exception *)
Theorem C18_faults_retry_predicate_raises : forall (exc : Type) (cfail rbfail : exc) allowed rb_ok i e e2 c t,
  (forall e3, allowed <> PRaises e3) ->
  let r := attempt_f exc cfail rbfail allowed (PRaises e2) rb_ok (leaf exc i false (Raise e)) (mkst 0 [] c t) in
  snd r = ADone (Raise e2) /\ comm (fst r) = c ++ (if is_yes exc allowed then [i] else []).
Proof. exact attempt_f_retry_predicate_raises. Qed.
Print Assumptions C18_faults_retry_predicate_raises.

(* the allowed predicate raises: rolled back (c ++ [] = c), its exception replaces the body's *)
Theorem C18_faults_allowed_predicate_raises : forall (exc : Type) (cfail rbfail : exc) rb_ok i e e3 c t,
  let r := attempt_f exc cfail rbfail (PRaises e3) PNo rb_ok (leaf exc i false (Raise e)) (mkst 0 [] c t) in
  snd r = ADone (Raise e3) /\ comm (fst r) = c ++ [].
Proof. exact attempt_f_allowed_predicate_raises. Qed.
Print Assumptions C18_faults_allowed_predicate_raises.

(* rollback() raises while a retry is being prepared: no further attempt, nothing committed, RollbackException reaches the caller *)
Theorem C18_faults_rollback_fails : forall (exc : Type) (cfail rbfail : exc) allowed i e c t,
  (forall e3, allowed <> PRaises e3) ->
  let r := attempt_f exc cfail rbfail allowed PYes false (leaf exc i false (Raise e)) (mkst 0 [] c t) in
  snd r = ADone (Raise rbfail) /\ comm (fst r) = c ++ [].
Proof. exact attempt_f_rollback_fails. Qed.
Print Assumptions C18_faults_rollback_fails.

(* the context manager under the same faults: a failing rollback() at the exit is swallowed, the body's exception goes on *)
Theorem C18_faults_with : forall (exc : Type) (cfail rbfail : exc) allowed rb_ok i p o c t,
  let r := with_f exc cfail rbfail allowed rb_ok (leaf exc i p o) (mkst 0 [] c t) in
  depth (fst r) = 0 /\ pend (fst r) = []
  /\ comm (fst r) = c ++ (if negb p && match o with Ok => true | Raise _ => is_yes exc allowed end then [i] else [])
  /\ snd r = match o with
             | Ok => if p then Raise cfail else Ok
             | Raise e => match allowed with
                          | PYes => if p then Raise cfail else Raise e
                          | PNo => Raise e
                          | PRaises e3 => Raise e3
                          end
             end.
Proof. exact with_f_spec. Qed.
Print Assumptions C18_faults_with.

(* `exc` ranges over all BaseExceptions - SystemExit, KeyboardInterrupt, GeneratorExit, user classes derived from BaseException -
   not only over Exception: every theorem above holds for them (the session's handlers are bare `except:`); the predicate
   is_exception only decides what a user's own `try: ... except Exception` swallows.  Exception 6 is not an Exception: it passes
   through the user's try, is neither allowed nor retryable, so the decorated function rolls back and lets it out. *)
Example C18_base_exception :
  let s := mksess nat 1 (fun e => e =? 1) (fun e => e =? 2) in
  run nat (fun _ => false) 0 (fun e => negb (e =? 6)) (PCall nat s (PTry nat (PLeaf nat 1 false (Raise 6)))) st0
  = (mkst 0 [] [] [EBegin; ERun 1 0 1; ERollback 1], Raise 6)
  /\ run nat (fun _ => false) 0 (fun e => negb (e =? 6)) (PCall nat s (PTry nat (PLeaf nat 1 false (Raise 5)))) st0
  = (mkst 0 [] [1] [EBegin; ERun 1 0 1; ECommit 1; ECommit 0], Ok).
Proof. vm_compute. split; reflexivity. Qed.
Print Assumptions C18_base_exception.

(* the hypotheses are satisfiable and the machine is not trivial: retry=2, attempt 0 raises a retryable exception (1),
   attempt 1 finishes but its commit fails with a retryable exception (2 = cfail), attempt 2 raises an allowed one (3) *)
Example C18_nonvacuous :
  let s := mksess nat 2 (fun e => e =? 3) (fun e => (e =? 1) || (e =? 2)) in
  call_stream nat (fun _ => false) 2 s [(false, Raise 1); (true, Ok); (false, Raise 3)] st0
  = (mkst 0 [] [2]
       [EBegin; ERun 0 0 1; ERollback 1; ERollback 0;
        EBegin; ERun 1 0 1; ERollback 1; ECommitFail 1; ERollback 0; ERollback 0;
        EBegin; ERun 2 0 1; ECommit 1], Raise 3).
Proof. vm_compute. reflexivity. Qed.
Print Assumptions C18_nonvacuous.
