(* C25 - String indexing and slicing translate to Python semantics on every dialect.
   Property theorems only: each is closed by `exact <lemma>`; Print Assumptions must report a closed term. *)
Require Import PonyV.Base.PyBase PonyV.Base.Seg PonyV.Sql.SqlAst PonyV.Sql.Dialect PonyV.Gen.StringSlice
               PonyV.Model.GetItem PonyV.Model.GetItemSem PonyV.Proofs.SliceProofs PonyV.Proofs.SliceOracle PonyV.Proofs.GetItemProofs.

(* The builder (translated from /repo's SQLBuilder.STRING_SLICE on every run), PostgreSQL branch: for every string,
   every shape of bound (omitted / constant / expression) and every integer value, the SQL computes s[a:b]. *)
Theorem C25_builder_postgresql : forall env expr s start stop a b,
  eval PostgreSQL env expr = VStr s ->
  bound_ok PostgreSQL env start a -> bound_ok PostgreSQL env stop b ->
  eval PostgreSQL env (string_slice true expr start stop) = VStr (py_slice s a b).
Proof. exact slice_pg. Qed.
Print Assumptions C25_builder_postgresql.

(* generic branch under MySQL's SUBSTR, outside the known-bad classes (generic_ok) *)
Theorem C25_builder_mysql_except_known : forall env expr s start stop a b,
  eval MySQL env expr = VStr s ->
  bound_ok MySQL env start a -> bound_ok MySQL env stop b ->
  generic_ok (zlen s) a b ->
  eval MySQL env (string_slice false expr start stop) = VStr (py_slice s a b).
Proof. exact slice_mysql. Qed.
Print Assumptions C25_builder_mysql_except_known.

(* generic branch under Oracle's SUBSTR ('' is NULL there: `ora r` is NULL for the empty result), same domain *)
Theorem C25_builder_oracle_except_known : forall env expr s start stop a b,
  s <> [] ->
  eval Oracle env expr = VStr s ->
  bound_ok Oracle env start a -> bound_ok Oracle env stop b ->
  generic_ok (zlen s) a b ->
  eval Oracle env (string_slice false expr start stop) = ora (py_slice s a b).
Proof. exact slice_oracle. Qed.
Print Assumptions C25_builder_oracle_except_known.

(* SQLite code path (translated from SQLiteBuilder.STRING_SLICE): unconditional, NULL bounds count as omitted *)
Theorem C25_builder_sqlite : forall env expr s start stop a b,
  eval SQLite env expr = VStr s ->
  bound_ok_null env start a -> bound_ok_null env stop b ->
  eval SQLite env (sqlite_string_slice expr start stop) = VStr (py_slice s a b).
Proof. exact slice_sqlite. Qed.
Print Assumptions C25_builder_sqlite.

(* End to end: the value of the query expression s[start:stop] as StringMixin.__getitem__ + builder produce it *)
Theorem C25_slice_postgresql_except_known : forall env expr s start stop a b,
  eval PostgreSQL env expr = VStr s ->
  bval PostgreSQL env start = Some a -> bval PostgreSQL env stop = Some b ->
  ~ known_bad_plan start stop ->
  slice_value PathPg env expr start stop = VStr (py_slice s a b).
Proof. exact slice_value_pg. Qed.
Print Assumptions C25_slice_postgresql_except_known.

Theorem C25_slice_mysql_except_known : forall env expr s start stop a b,
  eval MySQL env expr = VStr s ->
  bval MySQL env start = Some a -> bval MySQL env stop = Some b ->
  ~ known_bad_plan start stop -> generic_ok (zlen s) a b ->
  slice_value PathMySQL env expr start stop = VStr (py_slice s a b).
Proof. exact slice_value_mysql. Qed.
Print Assumptions C25_slice_mysql_except_known.

Theorem C25_slice_sqlite_except_known : forall env expr s start stop a b,
  eval SQLite env expr = VStr s ->
  bval SQLite env start = Some a -> bval SQLite env stop = Some b ->
  ~ known_bad_plan start stop ->
  slice_value PathSQLite env expr start stop = VStr (py_slice s a b).
Proof. exact slice_value_sqlite. Qed.
Print Assumptions C25_slice_sqlite_except_known.

(* s[i] on the three code paths: Python's character for an index in range, '' otherwise (Python: IndexError) *)
Theorem C25_index : forall p env expr s idx i,
  eval (path_dialect p) env expr = VStr s ->
  bval (path_dialect p) env idx = Some (Some i) ->
  index_value p env expr idx = VStr (index_spec s i).
Proof. exact index_value_ok. Qed.
Print Assumptions C25_index.

(* non-vacuity: the hypotheses are met by concrete non-trivial inputs *)
Example C25_nonvacuous :
  slice_value PathPg (fun i => match i with O => VStr [97; 98; 99; 100] | _ => VInt (-3) end) (SExt 0) (BExpr (SExt 1)) (BConst 3)
  = VStr [98; 99].
Proof. vm_compute. reflexivity. Qed.
