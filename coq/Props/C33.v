(* C33 - Lifecycle hooks run once per saved change and their edits are saved.
   Property theorems only: each is closed by `exact <lemma>`; Print Assumptions must report a closed term.
   Model: Model/C33Flush.v (SessionCache.flush rounds, Entity._save_ with principals, after hooks, Entity.flush).
   phase l o = Idle  <->  the events of object o in l are a concatenation of (before_k, statement_k, after_k) triples. *)
Require Import PonyV.Base.PyBase PonyV.Model.C33Flush PonyV.Proofs.C33Proofs.

(* R s: the session invariant between flushes: objects_to_save holds exactly the pending objects (once each), no saved
   objects are waiting for their after hook, every object's event history so far is complete. *)

(* For all hook behaviours (any function of the whole state returning modifications of any objects and creations),
   any round limit and any session state: a flush that terminates leaves every object's hook/statement history
   well bracketed: each statement has exactly one matching before hook before it and one matching after hook after it. *)
Theorem C33_once : forall hooks n fuel s s',
  R s -> flush hooks n fuel s = Ok s' -> forall o, phase (log s') o = Idle.
Proof. exact flush_once. Qed.
Print Assumptions C33_once.

(* ... and nothing is left unsaved: no object is pending, and every live object's database value is its in-memory value,
   whatever the before/after hooks modified or created on the way. *)
Theorem C33_edits_saved : forall hooks n fuel s s',
  R s -> flush hooks n fuel s = Ok s' ->
  forall o, pend s' o = None /\ (clean (o_status (objs s' o)) = true -> o_dbval (objs s' o) = Some (o_val (objs s' o))).
Proof. exact flush_edits_saved. Qed.
Print Assumptions C33_edits_saved.

(* the invariant is re-established, so the theorems apply to every later flush of the session as well *)
Theorem C33_invariant : forall hooks n fuel s s', R s -> flush hooks n fuel s = Ok s' -> R s' /\ modified s' = false.
Proof. exact flush_R. Qed.
Print Assumptions C33_invariant.

(* obj.flush() (Entity.flush passes call_before_hooks=True; _save_principal_objects_ calls the before hook of every still-unsaved
   principal right before saving it -- /repo b6b47ea): the same property, UNCONDITIONAL -- for all hooks, every chain of principals
   (a cyclic chain is an error in model and code), every session state.  obj_flush_h is the model of this code; the model of the
   code before b6b47ea (obj_flush, which skipped the principals' before hooks) is kept only so that a revert is recognised. *)
Theorem C33_obj_flush_once : forall hooks fuel o s s',
  R s -> obj_flush_h hooks fuel o s = Some s' -> R s'.
Proof. exact obj_flush_h_once. Qed.
Print Assumptions C33_obj_flush_once.

Example C33_obj_flush_nonvacuous :
  result_log (match obj_flush_h no_hooks 10 1 st_principal with Some s => Ok s | None => ErrFuel end)
  = [EB KIns 1; EB KIns 0; ES KIns 0; ES KIns 1; EA KIns 0; EA KIns 1].
Proof. vm_compute. reflexivity. Qed.

Example C33_nonvacuous : R st_principal /\
  result_log (flush no_hooks 50 10 st_principal) = [EB KIns 0; EB KIns 1; ES KIns 0; ES KIns 1; EA KIns 0; EA KIns 1].
Proof. split; [exact st_principal_R | vm_compute; reflexivity]. Qed.
