(* C01 - Declarative queries return what Python evaluation of the same expression returns.
   Property theorems only: each is closed by `exact <lemma>`; Print Assumptions must report a closed term.

   Scope: the scalar filter / projection grammar of Model/C01Expr.v over one entity (attributes of type int / str /
   bool, optional or required; literals; external parameters; + - * // % / unary minus abs; string + and len;
   comparisons, is (not) None; and / or / not; in / not in literal lists; if-else; coalesce; min / max of several
   arguments), any nesting depth, any row, any parameter values; dialects SQLite, PostgreSQL, MySQL (d with
   modelled d = true).  [tr_filter] / [tr_project] are the model of the monad translation (Model/C01Translate.v),
   [qeval] the SQL semantics per dialect (Model/C01Sql.v), [ref_eval] the reference meaning (Model/C01Expr.v).
   The complement ("known bad") is explicit: [safe] (operator instances, Model/C01Safe.v) and [pos_ok] / [clean]
   (a None value tested for truth below a `not`); every disjunct has a refutation in Findings/C01.v / Findings/C02.v. *)
Require Import PonyV.Base.PyBase PonyV.Model.C01Expr PonyV.Model.C01Sql PonyV.Model.C01Translate PonyV.Model.C01Safe
               PonyV.Model.C01Eqb PonyV.Model.C01Query PonyV.Model.C01Like PonyV.Model.C01LikeEqb PonyV.Model.C01Join PonyV.Model.C01Coll PonyV.Model.C01Aggr PonyV.Model.C01Len PonyV.Model.C01Form PonyV.Model.C01Group PonyV.Model.C01Order
               PonyV.Proofs.C01Ref PonyV.Proofs.C01Sound PonyV.Proofs.C01Rows PonyV.Proofs.C01Like PonyV.Proofs.C01Join PonyV.Proofs.C01Coll PonyV.Proofs.C01Aggr PonyV.Proofs.C01Len PonyV.Proofs.C01Form PonyV.Proofs.C01Group PonyV.Proofs.C01Order.

(* WHERE keeps exactly the rows the Python condition keeps *)
Theorem C01_filter_except_known : forall d, modelled d = true ->
  forall en e t, ty_of e = Some t -> boolable t = true ->
  env_ok en e = true -> safe d en e = true -> pos_ok en e = true ->
  exists conds, tr_filter d e = Some conds /\ where_truth d (encenv d en) conds = py_truthy e (ref_eval en e).
Proof. exact filter_ref. Qed.
Print Assumptions C01_filter_except_known.

(* a selected scalar expression has Python's value (as stored, and after the converter decoded it) *)
Theorem C01_project_except_known : forall d, modelled d = true ->
  forall en e vt, ty_of e = Some (TV vt) ->
  env_ok en e = true -> safe d en e = true -> clean en e = true ->
  exists q, tr_project d e = Some q /\ qeval d (encenv d en) q = enc d (ref_eval en e) /\
            dec (TV vt) (qeval d (encenv d en) q) = ref_eval en e.
Proof. exact project_ref. Qed.
Print Assumptions C01_project_except_known.

(* a selected condition has the three-valued truth value (True / False / None) *)
Theorem C01_project_condition_except_known : forall d, modelled d = true ->
  forall en e, ty_of e = Some TCond ->
  env_ok en e = true -> safe d en e = true -> clean en e = true ->
  exists q, tr_project d e = Some q /\ qeval d (encenv d en) q = enc d (ref_eval en e) /\
            dec TCond (qeval d (encenv d en) q) = ref_eval en e.
Proof. exact project_cond_ref. Qed.
Print Assumptions C01_project_condition_except_known.

(* whole result lists over any table: SELECT [DISTINCT] q FROM P WHERE conds = the Python comprehension
   (list semantics, or without repetitions when the translator decides DISTINCT) *)
Theorem C01_rows_except_known : forall d, modelled d = true ->
  forall filt tf proj vt distinct table conds q,
  ty_of filt = Some tf -> boolable tf = true -> ty_of proj = Some (TV vt) ->
  tr_filter d filt = Some conds -> tr_project d proj = Some q ->
  Forall (row_ok d filt proj) table ->
  sql_rows d distinct conds q table = map (enc d) (py_rows distinct filt proj table) /\
  map (dec (TV vt)) (sql_rows d distinct conds q table) = py_rows distinct filt proj table.
Proof. exact rows_ref. Qed.
Print Assumptions C01_rows_except_known.

(* the translation itself, under Pony's three-valued reading: no [pos_ok] / [clean] side condition *)
Theorem C01_translation_sound : forall d, modelled d = true ->
  forall en e t, ty_of e = Some t -> env_ok en e = true -> safe d en e = true -> den d en e t.
Proof. exact tr_sound. Qed.
Print Assumptions C01_translation_sound.

(* the reference reading and Pony's reading coincide on clean expressions / keep the same rows on pos_ok filters *)
Theorem C01_readings_agree : forall en e, clean en e = true -> pony_eval en e = ref_eval en e.
Proof. exact clean_same. Qed.
Print Assumptions C01_readings_agree.
Theorem C01_readings_keep_same_rows : forall en e, pos_ok en e = true ->
  py_truthy e (pony_eval en e) = py_truthy e (ref_eval en e).
Proof. exact pos_ok_same. Qed.
Print Assumptions C01_readings_keep_same_rows.

(* the LIKE family (Model/C01Like.v): hay.startswith(needle), hay.endswith(needle), needle in hay and their negations
   (`not ...`, `not in`), needle a string literal of the query (escaped at translation time) or ANY other string
   expression - parameter, attribute, concatenation ... - (escaped in SQL by three REPLACEs), for every haystack and
   needle string: the LIKE pattern with ESCAPE '!' accepts exactly what Python accepts.  Non-NULL operands only (the
   NULL behaviour of `not in` is the finding string-not-in-keeps-null-rows). *)
Theorem C01_like : forall d en k neg hay needle c s n,
  like_of d k neg hay needle = Some c ->
  (forall kh nh qh, tr d hay = MVal kh TStr nh qh -> qeval d (encenv d en) qh = StrV s) ->
  needle_val d (encenv d en) (tr d needle) = Some n ->
  lcond_eval d (encenv d en) c = Some (tv_of_bool (xorb neg (py_like k n s))).
Proof. exact like_of_sound. Qed.
Print Assumptions C01_like.

Example C01_like_nonvacuous :
  let hay := EAttr (mkattr 4 TStr true) in let needle := EParam 0 (Some TStr) in
  let en := mkenv (fun _ => PStr [97; 33; 98]) (fun _ => PStr [97; 33]) in     (* 'a!b'.startswith('a!') *)
  map (fun k => match like_of DSqlite k false hay needle with Some c => otv_code (lcond_eval DSqlite (encenv DSqlite en) c) | None => 9 end)
      [KStarts; KEnds; KContains] = [1; 0; 1].
Proof. vm_compute. reflexivity. Qed.

(* ------------------------------------------------------------------------------------------------------------------
   Attribute paths through to-one relationships (Model/C01Join.v): p.group.number, p.group.dept.name ... in filters and
   projections over the schema P -> G -> D with Optional references.  [from_rows] is the relational meaning of the FROM
   section the translator emits, [py_join_rows] the comprehension over the object graph (a None reference makes the path
   None); primary keys are unique.  [qenv_of] is the attribute environment of the part of the graph the query touches.

   left_join(...): LEFT JOINs - every P row, rows in the domain of the expression theorems ([row_ok]: in particular no
   Required attribute reached through a None reference, see the finding left-join-required-attribute-through-none-reference) *)
Theorem C01_left_join_rows_except_known : forall d, modelled d = true ->
  forall db, ids_unique (tG db) -> ids_unique (tD db) ->
  forall params filt proj tf vt, ty_of filt = Some tf -> boolable tf = true -> ty_of proj = Some (TV vt) ->
  forall conds q, tr_filter d filt = Some conds -> tr_project d proj = Some q ->
  forall distinct,
  Forall (fun p => row_ok d filt proj (qenv_of db params filt proj p)) (tP db) ->
  sql_join_rows d JLeft (depth_of [filt; proj]) distinct conds q params db = map (enc d) (py_join_rows distinct filt proj params db) /\
  map (dec (TV vt)) (sql_join_rows d JLeft (depth_of [filt; proj]) distinct conds q params db) = py_join_rows distinct filt proj params db.
Proof. exact left_join_rows. Qed.
Print Assumptions C01_left_join_rows_except_known.

(* select(...): the comma join is an INNER join - exactly the P rows whose followed references are all set take part ... *)
Theorem C01_select_join_is_inner : forall d db, ids_unique (tG db) -> ids_unique (tD db) ->
  forall params filt proj conds q distinct,
  sql_join_rows d JInner (depth_of [filt; proj]) distinct conds q params db
  = sql_rows d distinct conds q (map (qenv_of db params filt proj) (filter (fun p => defined (depth_of [filt; proj]) (flat db p)) (tP db))).
Proof. exact inner_join_rows_sql. Qed.
Print Assumptions C01_select_join_is_inner.

(* ... so the result is the Python comprehension provided no row with an unset followed reference is kept by the Python
   condition (the complement is the finding optional-path-inner-join-drops-rows) *)
Theorem C01_select_join_rows_except_known : forall d, modelled d = true ->
  forall db, ids_unique (tG db) -> ids_unique (tD db) ->
  forall params filt proj tf vt, ty_of filt = Some tf -> boolable tf = true -> ty_of proj = Some (TV vt) ->
  forall conds q, tr_filter d filt = Some conds -> tr_project d proj = Some q ->
  forall distinct,
  Forall (fun p => defined (depth_of [filt; proj]) (flat db p) = true -> row_ok d filt proj (qenv_of db params filt proj p)) (tP db) ->
  Forall (fun p => defined (depth_of [filt; proj]) (flat db p) = false -> py_truthy filt (ref_eval (penv params (flat db p)) filt) = false) (tP db) ->
  sql_join_rows d JInner (depth_of [filt; proj]) distinct conds q params db = map (enc d) (py_join_rows distinct filt proj params db) /\
  map (dec (TV vt)) (sql_join_rows d JInner (depth_of [filt; proj]) distinct conds q params db) = py_join_rows distinct filt proj params db.
Proof. exact inner_join_rows. Qed.
Print Assumptions C01_select_join_rows_except_known.

Example C01_join_nonvacuous :
  let number := mkattr 11 TInt false in let code := mkattr 22 TInt true in
  let filt := ECmp CGt (EAttr number) (EInt 1) in let proj := EAttr code in
  let db := mkjdb [row_of [(0, PInt 1); (8, PInt 1); (3, PInt 0); (5, PStr [97%Z]); (7, PBool true)]%nat;
                   row_of [(0, PInt 2); (3, PInt 0); (5, PStr [97%Z]); (7, PBool true)]%nat]
                  [row_of [(0, PInt 1); (1, PInt 5); (3, PInt 1)]%nat]
                  [row_of [(0, PInt 1); (1, PStr [97%Z]); (2, PInt 7%Z); (3, PBool true)]%nat] in
  depth_of [filt; proj] = 2%nat /\
  match tr_filter DSqlite filt, tr_project DSqlite proj with
  | Some c, Some q => sql_join_rows DSqlite JInner 2 false c q (fun _ => PNone) db = [IntV 7] /\
                      sql_join_rows DSqlite JLeft 2 false c q (fun _ => PNone) db = [IntV 7]
  | _, _ => False
  end /\ py_join_rows false filt proj (fun _ => PNone) db = [PInt 7].
Proof. vm_compute. repeat split; reflexivity. Qed.

(* ---------------------------------------------------------------------------------------------------------------
   Conditions over a to-many collection (Model/C01Coll.v): queries over G whose `if` part is a conjunction of atoms about
   g.members = Set(P) - exists(m for m in g.members if c) / g.members and their negations (EXISTS / NOT EXISTS), v in /
   not in (m.a for m in g.members if c), v in / not in g.members.a and not (v in (...)) (IN / NOT IN subqueries with the
   translator's IS NOT NULL checks), scalar conditions mentioning
   count(m for m in g.members if c) (SELECT COUNT(DISTINCT m.id) subquery), and plain scalar conditions over g.
   [xtruth] is the relational meaning of the emitted subquery shape, [holds] the Python meaning of the atom over the
   object graph: None members of the collection never match, a None left operand makes the comparisons unknown.
   Domain: the inner / outer scalar expressions are in the domain of the expression theorems on the rows they are
   evaluated on ([atom_dom]); nothing else is excluded (the defect not-over-in-collection-lacks-null-check found with this
   model was repaired in repo commit 2e4b5c8). *)
Theorem C01_collection_atom_except_known : forall d, modelled d = true ->
  forall params db, pk_ok (tP db) = true ->
  forall g x c, atom_typed x = true -> atom_dom d params db g x -> tr_atom d x = Some c ->
  xtruth d params db g c = holds params db g x.
Proof. exact atom_sound. Qed.
Print Assumptions C01_collection_atom_except_known.

(* whole queries: select(proj for g in G if atom1 and ... and atomn) returns the Python comprehension over the object graph *)
Theorem C01_collection_rows_except_known : forall d, modelled d = true ->
  forall params db, pk_ok (tP db) = true ->
  forall distinct atoms proj vt xs q,
  forallb atom_typed atoms = true -> ty_of proj = Some (TV vt) ->
  tr_atoms d atoms = Some xs -> tr_project d proj = Some q ->
  Forall (group_ok d params db atoms proj) (tG db) ->
  sql_coll_rows d params db distinct xs q = map (enc d) (py_coll_rows params db distinct atoms proj) /\
  map (dec (TV vt)) (sql_coll_rows d params db distinct xs q) = py_coll_rows params db distinct atoms proj.
Proof. exact coll_rows. Qed.
Print Assumptions C01_collection_rows_except_known.

(* non-vacuity: exists with a correlated condition, `not in` over a collection that holds a None, and a count - on a
   database where one group satisfies all three and the other none *)
Example C01_collection_nonvacuous :
  let a := mkattr 1 TInt true in let number := mkattr 11 TInt false in let level := mkattr 14 TInt true in
  let cnt := mkattr 30 TInt false in
  let atoms := [AExists false (Some (ECmp CGt (EAttr a) (EAttr level)));
                AIn true false (EAttr number) a (SGen None);
                ACount None (ECmp CGt (EAttr cnt) (EInt 1))] in
  let proj := EAttr (mkattr 10 TInt false) in
  let mk (id : Z) (av grp : pyv) := row_of [(0, PInt id); (1, av); (8, grp); (3, PInt 0); (5, PStr [97%Z]); (7, PBool true)]%nat in
  let db := mkjdb [mk 1 (PInt 5) (PInt 1); mk 2 PNone (PInt 1); mk 3 (PInt 0) (PInt 2)]
                  [row_of [(0, PInt 1); (1, PInt 2); (4, PInt 1)]%nat; row_of [(0, PInt 2); (1, PInt 0)]%nat] [] in
  pk_ok (tP db) = true /\ forallb atom_typed atoms = true /\
  match tr_atoms DSqlite atoms, tr_project DSqlite proj with
  | Some xs, Some q => sql_coll_rows DSqlite (fun _ => PNone) db false xs q = [IntV 1]
  | _, _ => False
  end /\ py_coll_rows (fun _ => PNone) db false atoms proj = [PInt 1].
Proof. vm_compute. repeat split; reflexivity. Qed.

(* Subquery conditions combined freely with and / or / not (Model/C01Form.v): the formula is any condition of the scalar grammar
   over g's attributes whose leaves [ESub (40 + k)] are the k-th exists / in subquery and whose integer attributes 40 + k are the
   k-th count subquery.  Every subquery has, as SQL value, the stored form of its Python value - three-valued for IN: a None
   left operand or (for a non-matching search) nothing but the skipped None elements gives unknown / false exactly as
   [in_coll] says - so the expression theorems apply to the formula with the subquery columns added to g's row ([senv] / [fenv]). *)
Theorem C01_collection_subquery_value : forall d, modelled d = true ->
  forall params db, pk_ok (tP db) = true ->
  forall g s x, subq_typed s = true -> subq_dom d params db g s -> tr_subq d s = Some x ->
  xval d params db g x = enc d (pyval params db g s).
Proof. exact subq_sound. Qed.
Print Assumptions C01_collection_subquery_value.

Theorem C01_collection_formula_rows_except_known : forall d, modelled d = true ->
  forall params db, pk_ok (tP db) = true ->
  forall distinct subs filt proj vt xs conds q,
  forallb subq_typed subs = true -> boolty filt = true -> ty_of proj = Some (TV vt) ->
  tr_subqs d subs = Some xs -> tr_filter d filt = Some conds -> tr_project d proj = Some q ->
  Forall (fgroup_ok d params db subs filt proj) (tG db) ->
  sql_form_rows d params db distinct xs conds q = map (enc d) (py_form_rows params db distinct subs filt proj) /\
  map (dec (TV vt)) (sql_form_rows d params db distinct xs conds q) = py_form_rows params db distinct subs filt proj.
Proof. exact form_rows. Qed.
Print Assumptions C01_collection_formula_rows_except_known.

(* non-vacuity: not (level in (m.a ...) or not g.members) and count(...) < 2 or number == 0 - three groups, the collection of
   the first holds a None *)
Example C01_collection_formula_nonvacuous :
  let a := mkattr 1 TInt true in let number := mkattr 11 TInt false in let level := mkattr 14 TInt true in
  let subs := [SQIn (EAttr level) a (SGen None); SQExists None; SQCount None] in
  let filt := EOr (EAnd (ENot (EOr (ESub 40) (ENot (ESub 41)))) (ECmp CLt (EAttr (mkattr 42 TInt false)) (EInt 2)))
                  (ECmp CEq (EAttr number) (EInt 0)) in
  let proj := EAttr (mkattr 10 TInt false) in
  let mk (id : Z) (av grp : pyv) := row_of [(0, PInt id); (1, av); (8, grp); (3, PInt 0); (5, PStr [97%Z]); (7, PBool true)]%nat in
  let db := mkjdb [mk 1 PNone (PInt 1); mk 2 (PInt 5) (PInt 2); mk 3 (PInt 7) (PInt 2)]
                  [row_of [(0, PInt 1); (1, PInt 2); (4, PInt 3)]%nat; row_of [(0, PInt 2); (1, PInt 2); (4, PInt 3)]%nat;
                   row_of [(0, PInt 3); (1, PInt 0); (4, PInt 3)]%nat] [] in
  match tr_subqs DSqlite subs, tr_filter DSqlite filt, tr_project DSqlite proj with
  | Some xs, Some conds, Some q => sql_form_rows DSqlite (fun _ => PNone) db false xs conds q = [IntV 1; IntV 3]
  | _, _, _ => False
  end /\ py_form_rows (fun _ => PNone) db false subs filt proj = [PInt 1; PInt 3].
Proof. vm_compute. split; reflexivity. Qed.

(* len(g.members) / count(g.members) in a condition (Model/C01Len.v): the translator's "optimize" path -
   SELECT .. FROM G g LEFT JOIN P p ON g.id = p.group WHERE <w> GROUP BY g.id HAVING <h>, the conditions h mentioning
   COUNT(DISTINCT p.id).  [sql_len_rows]: LEFT JOIN rows, WHERE per joined row, groups by the value of g.id, COUNT(DISTINCT)
   per group, HAVING per group; [py_len_rows]: the comprehension with len = the number of P objects whose group is g.
   ws: conditions over g's own columns; hs: the conditions (or values tested for truth) that mention the count.  Nothing specific is
   excluded: the defect aggregate-truth-test-lands-in-where found with this model (`if len(g.members)` put the aggregate into
   WHERE) was repaired in repo commit 809623a. *)
Theorem C01_collection_len_rows_except_known : forall d, modelled d = true ->
  forall params db, pk_ok (tP db) = true -> keys_ok (map (fun g : row => g 0%nat) (tG db)) = true ->
  forall ws hs proj vt w h q,
  forallb boolty (ws ++ hs) = true -> forallb g_only ws = true -> ty_of proj = Some (TV vt) ->
  tr_len d ws hs = Some (sub_join, w, h) -> tr_project d proj = Some q ->
  Forall (len_ok d params db ws hs proj) (tG db) ->
  sql_len_rows d params db w h q = map (enc d) (py_len_rows params db ws hs proj) /\
  map (dec (TV vt)) (sql_len_rows d params db w h q) = py_len_rows params db ws hs proj.
Proof. exact len_rows. Qed.
Print Assumptions C01_collection_len_rows_except_known.

(* non-vacuity: groups with 2 / 1 / 0 members, `g.number >= 0 and len(g.members) > g.level` *)
Example C01_collection_len_nonvacuous :
  let number := mkattr 11 TInt false in let level := mkattr 14 TInt true in let cnt := mkattr 30 TInt false in
  let ws := [ECmp CGe (EAttr number) (EInt 0)] in let hs := [ECmp CGt (EAttr cnt) (EAttr level)] in
  let proj := EAttr (mkattr 10 TInt false) in
  let mk (id : Z) (grp : pyv) := row_of [(0, PInt id); (8, grp); (3, PInt 0); (5, PStr [97%Z]); (7, PBool true)]%nat in
  let db := mkjdb [mk 1 (PInt 1); mk 2 (PInt 1); mk 3 (PInt 2)]
                  [row_of [(0, PInt 1); (1, PInt 2); (4, PInt 1)]%nat; row_of [(0, PInt 2); (1, PInt 0); (4, PInt 1)]%nat;
                   row_of [(0, PInt 3); (1, PInt 5); (4, PInt (-1))]%nat] [] in
  match tr_len DSqlite ws hs, tr_project DSqlite proj with
  | Some (_, w, h), Some q => sql_len_rows DSqlite (fun _ => PNone) db w h q = [IntV 1; IntV 3]
  | _, _ => False
  end /\ py_len_rows (fun _ => PNone) db ws hs proj = [PInt 1; PInt 3].
Proof. vm_compute. split; reflexivity. Qed.

(* ---------------------------------------------------------------------------------------------------------------
   An aggregate as the whole result, without GROUP BY (Model/C01Aggr.v): select(count() | count(p) | count(e) | sum(e) |
   sum(distinct(e)) | min(e) | max(e) | avg(e) | avg(distinct(e)) for p in P [if c]).  [sql_aggr] is the SQL aggregate over the
   rows the WHERE keeps (NULLs skipped, DISTINCT, SUM wrapped in coalesce(.., 0) by the builder, COUNT(DISTINCT ..)),
   [py_aggr] Pony's documented aggregate over the comprehension (None skipped, sum of nothing 0, min / max / avg of nothing None,
   count(e) = number of different non-None values; the average as the exact quotient), [deca_g] the converter of the result type.
   Domain: every row in the domain of the expression theorems for c and e, distinct integer primary keys (count(p));
   known bad ([aggr_safe]): PostgreSQL has no sum / avg of a boolean (C02 finding postgres-sum-avg-of-boolean); the defect
   sum-of-booleans-is-returned-as-bool found with this model was repaired in repo commit ebd2f10. *)
Theorem C01_aggregate_except_known : forall d, modelled d = true ->
  forall table filt g conds qa,
  filt_typed filt = true -> tr_where d filt = Some conds -> tr_aggr d 0%nat g = Some qa ->
  aggr_safe d g = true ->
  keys_ok (map (fun en => attr_val en 0%nat) table) = true ->
  Forall (arow_ok d filt g) table ->
  sql_aggr d qa conds table = enca d (py_aggr g filt table) /\
  deca_g g (sql_aggr d qa conds table) = py_aggr g filt table.
Proof. exact aggr_sound. Qed.
Print Assumptions C01_aggregate_except_known.

(* non-vacuity: sum / sum(distinct) / avg / min / count over a table with a None, and sum / min over no rows *)
Example C01_aggregate_nonvacuous :
  let a := mkattr 1 TInt true in
  let row (id : Z) (av : pyv) := mkenv (fun i => match i with 0%nat => PInt id | 1%nat => av | _ => PNone end) (fun _ => PNone) in
  let table := [row 1 (PInt 2); row 2 PNone; row 3 (PInt 2); row 4 (PInt 5)] in
  let big := Some (ECmp CGt (EAttr a) (EInt 100)) in
  forallb (fun g => match tr_aggr DSqlite 0%nat g with Some qa => qv_eqb (sql_aggr DSqlite qa [] table) (enca DSqlite (py_aggr g None table)) | None => false end)
          [GAgg FSum false (EAttr a); GAgg FSum true (EAttr a); GAgg FAvg false (EAttr a); GAgg FMin false (EAttr a); GAgg FCount true (EAttr a); GCountObj; GCountRows] = true /\
  py_aggr (GAgg FSum false (EAttr a)) None table = AVal (PInt 9) /\ py_aggr (GAgg FSum true (EAttr a)) None table = AVal (PInt 7) /\
  py_aggr (GAgg FAvg false (EAttr a)) None table = AFrac 9 3 /\ py_aggr (GAgg FCount true (EAttr a)) None table = AVal (PInt 2) /\
  py_aggr (GAgg FSum false (EAttr a)) big table = AVal (PInt 0) /\ py_aggr (GAgg FMin false (EAttr a)) big table = AVal PNone /\
  match tr_where DSqlite big, tr_aggr DSqlite 0%nat (GAgg FSum false (EAttr a)) with
  | Some c, Some qa => sql_aggr DSqlite qa c table = IntV 0
  | _, _ => False
  end.
Proof. vm_compute. repeat split; reflexivity. Qed.

(* GROUP BY with selected aggregates / several aggregates per query (Model/C01Group.v): select((item, ..., item) for p in P [if c]),
   every item a scalar expression (grouping key) or an aggregate of Model/C01Aggr.v.  [sql_group_rows]: the kept rows partitioned by
   the values of the key columns (NULL keys form one group; no key: one group even over no rows), one result row per group;
   [py_group_rows]: the comprehension's rows partitioned by the values of the key expressions, aggregates per group.  Both list
   the groups in order of first appearance (SQL leaves the order open; the tie compares as multisets).  Domain as for
   C01_aggregate, row by row and item by item. *)
Theorem C01_group_rows_except_known : forall d, modelled d = true ->
  forall table filt items qitems conds,
  filt_typed filt = true -> tr_where d filt = Some conds -> tr_items d items = Some qitems ->
  forallb (item_safe d) items = true ->
  keys_ok (map (fun en => attr_val en 0%nat) table) = true ->
  Forall (grow_ok d filt items) table ->
  sql_group_rows d qitems conds table = map (map (enca d)) (py_group_rows items filt table).
Proof. exact group_sound. Qed.
Print Assumptions C01_group_rows_except_known.

(* non-vacuity: (p.a, count(p), sum(p.b)) grouped by a with a None key, and (count(p), max(p.b)) without keys over no rows *)
Example C01_group_nonvacuous :
  let a := mkattr 1 TInt true in let b := mkattr 2 TInt true in
  let row (id : Z) (av bv : pyv) := mkenv (fun i => match i with 0%nat => PInt id | 1%nat => av | 2%nat => bv | _ => PNone end) (fun _ => PNone) in
  let table := [row 1 (PInt 2) (PInt 5); row 2 PNone (PInt 1); row 3 (PInt 2) PNone; row 4 PNone (PInt 3)] in
  let items := [SKey (EAttr a); SAgg GCountObj; SAgg (GAgg FSum false (EAttr b))] in
  let items2 := [SAgg GCountObj; SAgg (GAgg FMax false (EAttr b))] in
  match tr_items DSqlite items, tr_items DSqlite items2, tr_where DSqlite (Some (ECmp CGt (EAttr a) (EInt 100))) with
  | Some q, Some q2, Some c2 => sql_group_rows DSqlite q [] table = [[IntV 2; IntV 2; IntV 5]; [NullV; IntV 2; IntV 4]] /\
                                sql_group_rows DSqlite q2 c2 table = [[IntV 0; NullV]]
  | _, _, _ => False
  end /\ py_group_rows items None table = [[AVal (PInt 2); AVal (PInt 2); AVal (PInt 5)]; [AVal PNone; AVal (PInt 2); AVal (PInt 4)]].
Proof. vm_compute. repeat split; reflexivity. Qed.

(* Ordering (Model/C01Order.v): select(proj for p in P [if c]).order_by(k1, desc(k2), ...), keys scalar expressions.  [sql_order_rows]:
   the kept rows sorted by the stored key values (integers, strings by code point, false < true, NULL smallest on SQLite / MySQL and
   largest on PostgreSQL, DESC reversing the whole order of its key), stable; [py_order_rows nf]: the comprehension sorted by the
   Python key values with the None keys first (nf) or last.  The list the database returns on dialect d is the comprehension sorted
   with None where d sorts NULL.  (Rows with equal key tuples: SQL leaves their order open, the model keeps the table order on both
   sides; the tie always ends the key list with the primary key.) *)
Theorem C01_order_rows_except_known : forall d, modelled d = true ->
  forall table filt ks proj vt qks conds q,
  filt_typed filt = true -> ty_of proj = Some (TV vt) ->
  tr_where d filt = Some conds -> tr_order d ks = Some qks -> tr_project d proj = Some q ->
  Forall (orow_ok d filt ks proj) table ->
  sql_order_rows d qks conds q table = map (enc d) (py_order_rows (nulls_first d) ks filt proj table) /\
  map (dec (TV vt)) (sql_order_rows d qks conds q table) = py_order_rows (nulls_first d) ks filt proj table.
Proof. exact order_sound. Qed.
Print Assumptions C01_order_rows_except_known.

(* non-vacuity: order by (desc(p.a), p.id) with a None key: None last on SQLite (DESC), first on PostgreSQL *)
Example C01_order_nonvacuous :
  let a := mkattr 1 TInt true in let pk := mkattr 0 TInt false in
  let row (id : Z) (av : pyv) := mkenv (fun i => match i with 0%nat => PInt id | 1%nat => av | _ => PNone end) (fun _ => PNone) in
  let table := [row 1 (PInt 2); row 2 PNone; row 3 (PInt 5); row 4 (PInt 2)] in
  let ks := [(EAttr a, true); (EAttr pk, false)] in
  match tr_order DSqlite ks, tr_order DPostgres ks with
  | Some k1, Some k2 => sql_order_rows DSqlite k1 [] (QCol 0) table = [IntV 3; IntV 1; IntV 4; IntV 2] /\
                        sql_order_rows DPostgres k2 [] (QCol 0) table = [IntV 2; IntV 3; IntV 1; IntV 4]
  | _, _ => False
  end /\ py_order_rows true ks None (EAttr pk) table = [PInt 3; PInt 1; PInt 4; PInt 2].
Proof. vm_compute. repeat split; reflexivity. Qed.

(* non-vacuity: a nested filter with a None attribute, a negative parameter and a floor division satisfies every
   hypothesis on the three dialects, and both sides are `true` *)
Definition nv_a := mkattr 1 TInt true.
Definition nv_b := mkattr 2 TInt true.
Definition nv_s := mkattr 4 TStr true.
Definition nv_e : expr :=
  EAnd (EOr (ECmp CGt (EArith FloorDiv (EAttr nv_a) (EInt 2)) (EParam 0 (Some TInt))) (ECmp CIs (EAttr nv_b) ENone))
       (ENot (ECmp CEq (ELen (EAttr nv_s)) (EInt 0))).
Definition nv_en : env :=
  mkenv (fun i => match i with 1%nat => PInt 8 | 4%nat => PStr [97; 98] | _ => PNone end)
        (fun i => match i with 0%nat => PInt (-3) | _ => PNone end).
Example C01_nonvacuous :
  forallb (fun d => modelled d && env_ok nv_en nv_e && safe d nv_en nv_e && pos_ok nv_en nv_e &&
                    py_truthy nv_e (ref_eval nv_en nv_e) && filter_agrees d nv_en nv_e) [DSqlite; DPostgres; DMysql] = true
  /\ ty_of nv_e = Some TCond.
Proof. vm_compute. split; reflexivity. Qed.
