(* C27 - Objects keep their class and polymorphic queries are exact.
   Property theorems only (closed by `exact <lemma>`); quantified over all schemas that EntityMeta accepts (`valid`: bases are
   earlier classes, the multiple-inheritance graph is diamond-like, and -- since fix d645930 -- no discriminator value is used
   twice inside a tree), any number of trees, any discriminator values. *)
From Coq Require Import ZArith List Bool Lia.
Require Import PonyV.Base.PyBase PonyV.Model.C27Inherit PonyV.Gen.C27AttrGet PonyV.Proofs.C27Proofs.
#[local] Open Scope nat_scope.

(* entity._subclasses_, as filled class by class, is the inverse of the transitive closure of the direct-base relation;
   entity._all_bases_ is that closure *)
Theorem C27_subclasses : forall s, valid s = true -> forall e c, In c (subclasses s e) <-> anc s e c.
Proof. exact subclasses_anc. Qed.
Print Assumptions C27_subclasses.
Theorem C27_all_bases : forall s, valid s = true -> forall e c, In e (all_bases s c) <-> anc s e c.
Proof. exact all_bases_anc. Qed.
Print Assumptions C27_all_bases.
Theorem C27_root : forall s, valid s = true -> forall e c, anc s e c -> root_of s e = root_of s c.
Proof. exact anc_root. Qed.
Print Assumptions C27_root.

(* every accepted schema has pairwise different discriminator values inside each tree (the definition-time check) *)
Theorem C27_accepted_schemas_have_distinct_discriminators : forall s, valid s = true -> discr_inj s.
Proof. exact valid_inj. Qed.
Print Assumptions C27_accepted_schemas_have_distinct_discriminators.
Theorem C27_duplicate_discriminator_rejected : valid s_dup = false.
Proof. exact dup_rejected. Qed.
Print Assumptions C27_duplicate_discriminator_rejected.

(* a row of the tree's table, created as class k, is selected by the discriminator criteria of a query over e
   iff k is e or one of its subclasses *)
Theorem C27_criteria : forall s, valid s = true -> forall e k,
  e < length s -> k < length s -> root_of s k = root_of s e ->
  (selected s e (discr_of s k) = true <-> In k (e :: subclasses s e)).
Proof. exact criteria_valid. Qed.
Print Assumptions C27_criteria.

(* the SQL built by FuncIsinstanceMonad.call, evaluated on a row created as class k (k in the family of the queried entity),
   is Python's isinstance(obj, (c1, .., cn)) -- classes of other trees included *)
Theorem C27_isinstance : forall s, valid s = true -> forall e cs k,
  e < length s -> family s e k ->
  isinst_eval (isinstance_sql s e cs) (discr_of s k) = py_isinstance s k cs.
Proof. exact isinstance_valid. Qed.
Print Assumptions C27_isinstance.

(* _parse_row_ picks the creation class from the stored discriminator, through whichever entity of the family the row is read;
   an object already in the identity map under an ancestor class is refined to it *)
Theorem C27_reload : forall s, valid s = true -> forall e k,
  e < length s -> family s e k -> reload_class s e (discr_of s k) = Some k.
Proof. exact reload_valid. Qed.
Print Assumptions C27_reload.
Theorem C27_refine : forall s, valid s = true -> forall cur real, family s cur real -> refine s cur real = Some real.
Proof. exact refine_exact. Qed.
Print Assumptions C27_refine.

(* lookup by primary key through entity e (E[pk], E.get) when the identity map already holds the object: loaded with its real class, or as
   an unloaded seed created for a reference typed cur.  The result is the object with its creation class iff that class is e or below
   -- for whatever discriminator value (0 and '' included), also when e and the reference type are sibling branches of a diamond (fix 8097451) *)
Theorem C27_lookup_loaded : forall s, valid s = true -> forall e real, find_in_cache s true e real false real = lookup_spec s e real.
Proof. exact find_loaded. Qed.
Print Assumptions C27_lookup_loaded.
Theorem C27_lookup_seed : forall s, valid s = true -> forall e cur real, family s cur real ->
  find_in_cache s true e cur true real = lookup_spec s e real.
Proof. exact find_seed. Qed.
Print Assumptions C27_lookup_seed.
(* items of a many-to-many collection typed as an ancestor class, iterated while the session is alive, come out with their creation class *)
Theorem C27_collection_item : forall s, valid s = true -> forall cur real, family s cur real -> collection_item_class s cur real = real.
Proof. exact collection_item_refined. Qed.
Print Assumptions C27_collection_item.

(* a reference of an unpickled object that was pickled by primary key only stays a placeholder and comes out with its creation class (fix 3acf097) *)
Theorem C27_unpickled_reference : forall s, valid s = true -> forall cur real, family s cur real -> unpickled_ref_class s cur real = real.
Proof. exact unpickled_ref_refined. Qed.
Print Assumptions C27_unpickled_reference.
(* two references typed c1 and c2 (any two classes at or above the stored class, sibling branches of a diamond included) to one object, loaded
   in one session: no class-change error, and the placeholder keeps a class at or above the stored one (fix cb35764) *)
Theorem C27_two_references : forall s, valid s = true -> forall c1 c2 real, family s c1 real -> family s c2 real ->
  exists c, meet_again s c1 true c2 = Some c /\ family s c real.
Proof. exact meet_again_ok. Qed.
Print Assumptions C27_two_references.

(* reading a reference attribute (Attribute.get) hands out the object with its creation class, whether the value was already known or
   had to be fetched with attr.load because the owner itself was an unloaded placeholder (chains a.b.c through placeholders); the flag
   is read from the source of Attribute.get on every run *)
Theorem C27_attr_get : forall s, valid s = true -> forall cur seed real, family s cur real -> (seed = false -> cur = real) ->
  attr_get_class s true cur seed real = Some real.
Proof. exact attr_get_refines. Qed.
Print Assumptions C27_attr_get.
Theorem C27_attr_get_after_load : forall s, valid s = true -> forall cur real, family s cur real ->
  attr_get_class s attr_get_loaded_value_reaches_guard cur true real = Some real.
Proof. exact attr_get_loaded_refines. Qed.
Print Assumptions C27_attr_get_after_load.

(* select(x for x in E if x.attr ...) where attr is declared by a subclass C of E (or by E): exactly the stored objects of C and its
   subclasses that satisfy the condition *)
Theorem C27_subclass_attribute_query : forall s, valid s = true -> forall e c k cond,
  e < length s -> k < length s -> root_of s k = root_of s e -> family s e c ->
  (sub_attr_selected s e c k cond = true <-> family s c k /\ cond = true).
Proof. exact sub_attr_query. Qed.
Print Assumptions C27_subclass_attribute_query.

(* non-vacuity: a two-tree schema with a diamond is accepted; sample values *)
Example C27_nonvacuous :
  valid s_diamond = true /\
  nset_eqb (subclasses s_diamond 0) [1; 2; 3; 4] = true /\ nset_eqb (all_bases s_diamond 4) [0; 1; 2; 3] = true /\
  isinstance_sql s_diamond 1 [2; 6] = IsIn [30%Z; 40%Z] /\ reload_class s_diamond 1 40 = Some 4.
Proof. repeat split; reflexivity. Qed.
