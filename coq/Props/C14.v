(* C14 - Primary and unique keys are never silently duplicated.
   Property theorems only: each is closed by `exact <lemma>`; Print Assumptions must report a closed term.

   Scope: Stage 1 of DESIGN Appendix A (single integer primary key, explicit or AUTOINCREMENT; unique int / str attributes,
   optional ones with None), all operations of Model/Session.v, every schema and every operation list.
   db_ok sch d (Proofs/SessionDbInv.v): in every table of d no two rows share a primary key, and no two rows share a non-NULL
   value of a unique column.  The first three theorems are unconditional: they also hold for histories that reached a dirty
   site of the model (the known defects of C11 / C12 corrupt the cache, not the committed keys). *)
Require Import PonyV.Model.SessionBase PonyV.Model.SessionDb PonyV.Model.Session.
Require Import PonyV.Proofs.SessionIdx PonyV.Proofs.SessionDbInv PonyV.Proofs.SessionDbPd.

(* no operation sequence commits two rows with equal primary-key or unique values *)
Theorem C14_committed_keys_unique : forall sch ops, db_ok sch (s_committed (run sch ops)).
Proof. exact committed_keys_unique_all_histories. Qed.
Print Assumptions C14_committed_keys_unique.

(* the inductive step: every operation, from every state, keeps the key constraints of the transaction's and of the committed database *)
Theorem C14_step_preserves : forall sch s op, Pd_ok sch s -> Pd_ok sch (fst (step sch s op)).
Proof. exact Pd_ok_step. Qed.
Print Assumptions C14_step_preserves.

(* a conflict found at flush time: the failing commit leaves the committed database unchanged and the session restarts from it *)
Theorem C14_failed_commit_keeps_database : forall sch s e, s_declined s = false -> snd (commit_op sch s) = RErr e ->
  s_committed (fst (commit_op sch s)) = s_committed s /\ s_db (fst (commit_op sch s)) = s_committed s.
Proof. exact failed_commit_keeps_database. Qed.
Print Assumptions C14_failed_commit_keeps_database.

(* nothing but a commit (or leaving the db_session, which commits) changes the committed database *)
Theorem C14_committed_changes_only_at_commit : forall sch s op, op <> OCommit -> op <> ONewSession ->
  s_committed (fst (step sch s op)) = s_committed s.
Proof. exact committed_changes_only_at_commit. Qed.
Print Assumptions C14_committed_changes_only_at_commit.

(* a conflict inside the session is reported when the change is made: creating an object under the primary key of a live object
   of the session never succeeds (clean histories; relies on the C11 index invariant) *)
Theorem C14_duplicate_creation_reported_except_known : forall sch, wf_schema sch = true -> forall ops o ob z kw,
  s_dirty (run sch ops) = O -> get_obj (run sch ops) o = Some ob -> o_pk ob = Some z -> is_gone (o_st ob) = false ->
  forall h, snd (new_op sch (run sch ops) (o_ent ob) (Some z) kw) <> RObj h.
Proof. exact duplicate_pk_creation_reported. Qed.
Print Assumptions C14_duplicate_creation_reported_except_known.

(* non-vacuity: a duplicate that only the database can see (the first object was committed in an earlier session and is not in
   the cache) is refused at commit with TransactionIntegrityError and the committed table keeps its single row; the same for
   a unique value; an AUTOINCREMENT id after an explicit one does not collide *)
Example C14_nonvacuous :
  let sch := [mkEnt false [mkAttr KInt false true]; mkEnt true []] in
  let ops := [ONew 0 (Some 1%Z) [(0, AInt 7%Z)]; ONewSession;
              ONew 0 (Some 1%Z) []; OCommit;
              ONew 0 (Some 2%Z) [(0, AInt 7%Z)]; OCommit;
              ONew 0 (Some 2%Z) [(0, AInt 8%Z)]; ONew 0 (Some 2%Z) []; OCommit]%nat in
  wf_schema sch = true /\
  trace sch (init_sess sch) ops = [RObj 0; ROk; RObj 0; RErr ETxnIntegrity; RObj 0; RErr ETxnIntegrity; RObj 0; RErr ECacheIndex; ROk]%nat /\
  map r_pk (tab (s_committed (run sch ops)) 0) = [1%Z; 2%Z].
Proof. vm_compute. repeat split; reflexivity. Qed.
