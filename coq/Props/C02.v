(* C02 - The same query over the same data gives the same answer on every dialect.
   Property theorems only.  Scope: the C01 grammar; dialects SQLite, PostgreSQL, MySQL (d with modelled d = true) under
   the dialect semantics of Model/C01Sql.v (only SQLite executes in this sandbox; PostgreSQL and MySQL are documentation
   models).  [safe d] is the complement of the recorded per-dialect defects (Findings/C01.v, Findings/C02.v). *)
Require Import PonyV.Base.PyBase PonyV.Model.C01Expr PonyV.Model.C01Sql PonyV.Model.C01Translate PonyV.Model.C01Safe
               PonyV.Model.C01Eqb PonyV.Model.C01Query PonyV.Model.C01Join PonyV.Model.C01Coll PonyV.Model.C01Aggr PonyV.Model.C01Len PonyV.Model.C01Form PonyV.Model.C01Group PonyV.Model.C01Order
               PonyV.Proofs.C01Rows PonyV.Proofs.C01Join PonyV.Proofs.C02Agree PonyV.Proofs.C02Join PonyV.Proofs.C01Coll PonyV.Proofs.C02Coll PonyV.Proofs.C01Aggr PonyV.Proofs.C02Aggr PonyV.Proofs.C01Len PonyV.Proofs.C02Len PonyV.Proofs.C01Form PonyV.Proofs.C02Form PonyV.Proofs.C01Group PonyV.Proofs.C02Group PonyV.Proofs.C01Order PonyV.Proofs.C02Order.

(* a selected expression decodes to the same Python value on any two dialects *)
Theorem C02_agree_project_except_known : forall d1 d2, modelled d1 = true -> modelled d2 = true ->
  forall en e vt, ty_of e = Some (TV vt) -> env_ok en e = true -> safe d1 en e = true -> safe d2 en e = true ->
  exists q1 q2, tr_project d1 e = Some q1 /\ tr_project d2 e = Some q2 /\
    dec (TV vt) (qeval d1 (encenv d1 en) q1) = dec (TV vt) (qeval d2 (encenv d2 en) q2).
Proof. exact agree_project. Qed.
Print Assumptions C02_agree_project_except_known.

(* WHERE keeps the same rows on any two dialects *)
Theorem C02_agree_filter_except_known : forall d1 d2, modelled d1 = true -> modelled d2 = true ->
  forall en e t, ty_of e = Some t -> boolable t = true -> env_ok en e = true -> safe d1 en e = true -> safe d2 en e = true ->
  exists c1 c2, tr_filter d1 e = Some c1 /\ tr_filter d2 e = Some c2 /\
    where_truth d1 (encenv d1 en) c1 = where_truth d2 (encenv d2 en) c2.
Proof. exact agree_filter. Qed.
Print Assumptions C02_agree_filter_except_known.

(* whole result lists over any table *)
Theorem C02_agree_rows_except_known : forall d1 d2, modelled d1 = true -> modelled d2 = true ->
  forall filt tf proj vt table c1 q1 c2 q2,
  ty_of filt = Some tf -> boolable tf = true -> ty_of proj = Some (TV vt) ->
  tr_filter d1 filt = Some c1 -> tr_project d1 proj = Some q1 ->
  tr_filter d2 filt = Some c2 -> tr_project d2 proj = Some q2 ->
  Forall (row_ok2 d1 d2 filt proj) table ->
  map (dec (TV vt)) (sql_rows d1 false c1 q1 table) = map (dec (TV vt)) (sql_rows d2 false c2 q2 table).
Proof. exact agree_rows. Qed.
Print Assumptions C02_agree_rows_except_known.

(* queries with attribute paths through to-one relationships (Model/C01Join.v), select() and left_join(): the same list on
   any two dialects (rows in the domain of both; a row the inner join drops needs no condition) *)
Theorem C02_agree_join_rows_except_known : forall d1 d2, modelled d1 = true -> modelled d2 = true ->
  forall k db params filt tf proj vt c1 q1 c2 q2,
  ids_unique (tG db) -> ids_unique (tD db) ->
  ty_of filt = Some tf -> boolable tf = true -> ty_of proj = Some (TV vt) ->
  tr_filter d1 filt = Some c1 -> tr_project d1 proj = Some q1 ->
  tr_filter d2 filt = Some c2 -> tr_project d2 proj = Some q2 ->
  let depth := depth_of [filt; proj] in
  Forall (fun p => (k = JInner /\ defined depth (flat db p) = false) \/ row_ok2 d1 d2 filt proj (qenv_of db params filt proj p)) (tP db) ->
  map (dec (TV vt)) (sql_join_rows d1 k depth false c1 q1 params db) = map (dec (TV vt)) (sql_join_rows d2 k depth false c2 q2 params db).
Proof. exact agree_join_rows. Qed.
Print Assumptions C02_agree_join_rows_except_known.

(* queries with conditions over a to-many collection (Model/C01Coll.v: EXISTS / IN / NOT IN / COUNT subqueries): the same
   list on any two dialects, every group in the domain of both *)
Theorem C02_agree_collection_rows_except_known : forall d1 d2, modelled d1 = true -> modelled d2 = true ->
  forall params db distinct atoms proj vt xs1 q1 xs2 q2,
  pk_ok (tP db) = true ->
  forallb atom_typed atoms = true -> ty_of proj = Some (TV vt) ->
  tr_atoms d1 atoms = Some xs1 -> tr_project d1 proj = Some q1 ->
  tr_atoms d2 atoms = Some xs2 -> tr_project d2 proj = Some q2 ->
  Forall (fun g => group_ok d1 params db atoms proj g /\ group_ok d2 params db atoms proj g) (tG db) ->
  map (dec (TV vt)) (sql_coll_rows d1 params db distinct xs1 q1) = map (dec (TV vt)) (sql_coll_rows d2 params db distinct xs2 q2).
Proof. exact agree_coll_rows. Qed.
Print Assumptions C02_agree_collection_rows_except_known.

(* subquery conditions under and / or / not (Model/C01Form.v) *)
Theorem C02_agree_collection_formula_rows_except_known : forall d1 d2, modelled d1 = true -> modelled d2 = true ->
  forall params db distinct subs filt proj vt xs1 c1 q1 xs2 c2 q2,
  pk_ok (tP db) = true ->
  forallb subq_typed subs = true -> boolty filt = true -> ty_of proj = Some (TV vt) ->
  tr_subqs d1 subs = Some xs1 -> tr_filter d1 filt = Some c1 -> tr_project d1 proj = Some q1 ->
  tr_subqs d2 subs = Some xs2 -> tr_filter d2 filt = Some c2 -> tr_project d2 proj = Some q2 ->
  Forall (fun g => fgroup_ok d1 params db subs filt proj g /\ fgroup_ok d2 params db subs filt proj g) (tG db) ->
  map (dec (TV vt)) (sql_form_rows d1 params db distinct xs1 c1 q1) = map (dec (TV vt)) (sql_form_rows d2 params db distinct xs2 c2 q2).
Proof. exact agree_form_rows. Qed.
Print Assumptions C02_agree_collection_formula_rows_except_known.

(* len(g.members) / count(g.members) in a condition (Model/C01Len.v: LEFT JOIN + GROUP BY + HAVING) *)
Theorem C02_agree_collection_len_rows_except_known : forall d1 d2, modelled d1 = true -> modelled d2 = true ->
  forall params db ws hs proj vt w1 h1 q1 w2 h2 q2,
  pk_ok (tP db) = true -> keys_ok (map (fun g : row => g 0%nat) (tG db)) = true ->
  forallb boolty (ws ++ hs) = true -> forallb g_only ws = true -> ty_of proj = Some (TV vt) ->
  tr_len d1 ws hs = Some (sub_join, w1, h1) -> tr_project d1 proj = Some q1 ->
  tr_len d2 ws hs = Some (sub_join, w2, h2) -> tr_project d2 proj = Some q2 ->
  Forall (fun g => len_ok d1 params db ws hs proj g /\ len_ok d2 params db ws hs proj g) (tG db) ->
  map (dec (TV vt)) (sql_len_rows d1 params db w1 h1 q1) = map (dec (TV vt)) (sql_len_rows d2 params db w2 h2 q2).
Proof. exact agree_len_rows. Qed.
Print Assumptions C02_agree_collection_len_rows_except_known.

(* aggregates as whole-query results (Model/C01Aggr.v): the same decoded value on any two dialects; known bad per dialect:
   PostgreSQL has no sum / avg of a boolean ([aggr_safe], finding postgres-sum-avg-of-boolean) *)
Theorem C02_agree_aggregate_except_known : forall d1 d2, modelled d1 = true -> modelled d2 = true ->
  forall table filt g c1 qa1 c2 qa2,
  filt_typed filt = true ->
  tr_where d1 filt = Some c1 -> tr_aggr d1 0%nat g = Some qa1 ->
  tr_where d2 filt = Some c2 -> tr_aggr d2 0%nat g = Some qa2 ->
  aggr_safe d1 g = true -> aggr_safe d2 g = true ->
  keys_ok (map (fun en => attr_val en 0%nat) table) = true ->
  Forall (fun en => arow_ok d1 filt g en /\ arow_ok d2 filt g en) table ->
  deca_g g (sql_aggr d1 qa1 c1 table) = deca_g g (sql_aggr d2 qa2 c2 table).
Proof. exact agree_aggr. Qed.
Print Assumptions C02_agree_aggregate_except_known.

(* GROUP BY with selected aggregates (Model/C01Group.v): both dialects return the stored forms of the same Python rows *)
Theorem C02_agree_group_rows_except_known : forall d1 d2, modelled d1 = true -> modelled d2 = true ->
  forall table filt items q1 c1 q2 c2,
  filt_typed filt = true ->
  tr_where d1 filt = Some c1 -> tr_items d1 items = Some q1 ->
  tr_where d2 filt = Some c2 -> tr_items d2 items = Some q2 ->
  forallb (item_safe d1) items = true -> forallb (item_safe d2) items = true ->
  keys_ok (map (fun en => attr_val en 0%nat) table) = true ->
  Forall (fun en => grow_ok d1 filt items en /\ grow_ok d2 filt items en) table ->
  exists rows, sql_group_rows d1 q1 c1 table = map (map (enca d1)) rows /\ sql_group_rows d2 q2 c2 table = map (map (enca d2)) rows.
Proof. exact agree_group_rows. Qed.
Print Assumptions C02_agree_group_rows_except_known.

(* ordering (Model/C01Order.v): the same ordered list when both dialects sort NULL to the same end or no key of a kept row is None;
   known bad: a None key on SQLite / MySQL vs PostgreSQL (finding order-by-null-placement-differs) *)
Theorem C02_agree_order_rows_except_known : forall d1 d2, modelled d1 = true -> modelled d2 = true ->
  forall table filt ks proj vt k1 c1 q1 k2 c2 q2,
  filt_typed filt = true -> ty_of proj = Some (TV vt) ->
  tr_where d1 filt = Some c1 -> tr_order d1 ks = Some k1 -> tr_project d1 proj = Some q1 ->
  tr_where d2 filt = Some c2 -> tr_order d2 ks = Some k2 -> tr_project d2 proj = Some q2 ->
  Forall (fun en => orow_ok d1 filt ks proj en /\ orow_ok d2 filt ks proj en) table ->
  nulls_first d1 = nulls_first d2 \/ keys_not_none ks filt table = true ->
  map (dec (TV vt)) (sql_order_rows d1 k1 c1 q1 table) = map (dec (TV vt)) (sql_order_rows d2 k2 c2 q2 table).
Proof. exact agree_order_rows. Qed.
Print Assumptions C02_agree_order_rows_except_known.

(* query[offset:] : each dialect's way of writing "no limit" (SQLite LIMIT -1, MySQL LIMIT 18446744073709551615,
   PostgreSQL LIMIT null) returns exactly the rows after the offset (tables of at most 2^64 - 1 rows) *)
Theorem C02_limit : forall d A (rows : list A) off, modelled d = true ->
  Z.of_nat (length rows) <= 18446744073709551615 -> offset_only d off rows = skipn off rows.
Proof. exact offset_only_skipn. Qed.
Print Assumptions C02_limit.

Example C02_nonvacuous :
  let e := EArith Add (EAttr (mkattr 6 TBool true)) (EMinMax true [EAttr (mkattr 1 TInt true); EInt 3]) in
  let en := mkenv (fun i => match i with 6%nat => PBool true | 1%nat => PInt 5 | _ => PNone end) (fun _ => PNone) in
  ty_of e = Some (TV TInt) /\ env_ok en e = true /\
  forallb (fun d => modelled d && safe d en e) [DSqlite; DPostgres; DMysql] = true /\
  map (fun d => match tr_project d e with Some q => dec (TV TInt) (qeval d (encenv d en) q) | None => PNone end) [DSqlite; DPostgres; DMysql]
    = [PInt 6; PInt 6; PInt 6] /\
  tr_project DSqlite e <> tr_project DPostgres e.
Proof. cbv zeta. repeat split; try reflexivity. discriminate. Qed.
