(* C07 - Stored attribute values read back unchanged for every type.
   Property theorems only: each is closed by `exact <lemma>`; Print Assumptions must report a closed term.

   round_us, timedelta2str, datetime2timestamp, timestamp2datetime and the SQLite Time/Date/Datetime converter methods are
   re-translated from /repo on every run (Gen/C07Codec.v); str2timedelta, Decimal quantize-on-store, the validate rounding and the
   UUID byte codec are hand models pinned to the source text (Model/C07Codec.v).  reload_T v = sql2py (py2sql (validate v)) is what
   a new session decodes; validate v is what the writing session holds after flush.

   PARTIAL: SQLite's float storage of timedelta, NUMERIC storage of Decimal, Json/array text, float/str/bytes/int transport
   have no theorem here; they are covered by the write -> commit -> new session -> read sweep only. *)
Require Import PonyV.Base.PyBase PonyV.Model.C07Base PonyV.Model.C07Fmt PonyV.Gen.C07Codec PonyV.Model.C07Codec
               PonyV.Proofs.C07Digits PonyV.Proofs.C07Proofs PonyV.Proofs.C07Timedelta.
Require PonyV.Model.C07Float PonyV.Proofs.C07Float.
Require Import PonyV.Model.C07Json PonyV.Proofs.C07Json.

(* decimal printing: int('%d' % n) = n for every natural number *)
Theorem C07_print_parse : forall n, 0 <= n -> parse_digits (print_nat n) = Some n.
Proof. exact parse_print_nat. Qed.
Print Assumptions C07_print_parse.

(* interval codec: every normalised timedelta (any number of days, negative included) survives timedelta2str / str2timedelta *)
Theorem C07_timedelta : forall t, td_norm t -> str2timedelta (td_str t) = Some t.
Proof. exact timedelta_roundtrip. Qed.
Print Assumptions C07_timedelta.

Theorem C07_timedelta_validated : forall p t, 0 <= p <= 6 -> td_norm t ->
  str2timedelta (td_str (validate_td p t)) = Some (validate_td p t).
Proof. exact timedelta_validated_roundtrip. Qed.
Print Assumptions C07_timedelta_validated.

(* timestamp codec *)
Theorem C07_timestamp : forall d, valid_datetime d -> timestamp2datetime (datetime2timestamp d) = Some d.
Proof. exact timestamp_roundtrip. Qed.
Print Assumptions C07_timestamp.

(* precision rounding: floor to a multiple of 10^(6-p); never larger, less than one unit lost, idempotent *)
Theorem C07_round : forall p us, 0 <= p <= 6 -> 0 <= us < 1000000 ->
  0 <= round_to p us <= us /\ round_to p us mod 10 ^ (6 - p) = 0 /\ us - round_to p us < 10 ^ (6 - p)
  /\ round_to p (round_to p us) = round_to p us.
Proof. exact round_to_props. Qed.
Print Assumptions C07_round.

(* SQLite datetime attributes of every precision: a new session reads exactly the value the writing session holds after flush *)
Theorem C07_datetime_reload : forall p d, 0 <= p <= 6 -> valid_datetime d ->
  reload_datetime p d = RVal (validate_datetime p d).
Proof. exact datetime_reload. Qed.
Print Assumptions C07_datetime_reload.

(* SQLite date attributes: every valid date (years 1..9999) reloads as itself.  (The proof computes `date_text_pads_year = true`
   from the regenerated translation of SQLiteDateConverter.py2sql; the unpadded strftime('%Y') was repaired in /repo commit 80b5dcb.) *)
Theorem C07_date_reload : forall d, valid_date d -> reload_date d = RVal d.
Proof. exact date_reload. Qed.
Print Assumptions C07_date_reload.

(* SQLite time attributes: the text written by py2sql is parsed back to the time by the strptime calls of sql2py ... *)
Theorem C07_time_text : forall t, valid_time t ->
  (if zlen_s (iso_time t) <=? 8 then strptime_hms (iso_time t) else strptime_hms_f (iso_time t)) = Some t.
Proof. exact time_text_parses. Qed.
Print Assumptions C07_time_text.

(* ... and a new session reads the value held after flush, for every precision.  (The proof computes `time_reloads_as_str = false`
   from the regenerated translation of SQLiteTimeConverter.sql2py: the `datetime.strptime` / `dt.datetime.time()` defect was
   repaired in /repo commit c022f0e; reverting it breaks this proof.) *)
Theorem C07_time_reload : forall p t, 0 <= p <= 6 -> valid_time t -> reload_time p t = RVal (validate_time p t).
Proof. exact time_reload. Qed.
Print Assumptions C07_time_reload.

(* Decimal: what a new session reads is the value quantized to the declared scale (half even); storing is idempotent;
   values that fit the scale reload numerically equal *)
Theorem C07_decimal_store : forall scale d, dec_reload scale d = quantize scale d.
Proof. exact decimal_reload. Qed.
Print Assumptions C07_decimal_store.

Theorem C07_decimal_idempotent : forall scale d, quantize scale (quantize scale d) = quantize scale d.
Proof. exact quantize_idem. Qed.
Print Assumptions C07_decimal_idempotent.

Theorem C07_decimal_reload_except_known : forall scale c e, - scale <= e -> dec_eqb (dec_reload scale (c, e)) (c, e) = true.
Proof. exact decimal_reload_except_known. Qed.
Print Assumptions C07_decimal_reload_except_known.

(* UUID <-> 16 bytes, bool <-> 0/1 *)
Theorem C07_uuid : forall n, 0 <= n < 2 ^ 128 -> uuid_sql2py (uuid_py2sql n) = Some n.
Proof. exact uuid_roundtrip. Qed.
Print Assumptions C07_uuid.

Theorem C07_bool : forall b, bool_sql2py (bool_py2sql b) = b.
Proof. exact bool_roundtrip. Qed.
Print Assumptions C07_bool.

(* Json / array attributes: the value an object holds after ANY assignment (plain value, its own tracked value, a tracked value
   of another object or attribute, a nested part) notifies that object and attribute on in-place edits, so that the edit is
   written by the next flush; the payload is unchanged.  json_validate / array_validate carry the keep-as-is condition read from
   JsonConverter.validate / ArrayConverter.validate on every run. *)
Theorem C07_json_assign_owner : forall obj attr v, tv_notifies (json_validate obj attr v) = Some (obj, attr).
Proof. exact json_validate_owner. Qed.
Print Assumptions C07_json_assign_owner.

Theorem C07_array_assign_owner : forall obj attr v, tv_notifies (array_validate obj attr v) = Some (obj, attr).
Proof. exact array_validate_owner. Qed.
Print Assumptions C07_array_assign_owner.

Theorem C07_json_assign_payload : forall obj attr v, tv_payload (json_validate obj attr v) = tv_payload v.
Proof. exact json_validate_payload. Qed.
Print Assumptions C07_json_assign_payload.

(* Oracle and MySQL keep a `time` as an interval: py2sql builds the timedelta, the driver hands one back, sql2py (same text in both
   providers) rebuilds the time: exact for every valid time *)
Theorem C07_interval_time : forall t, valid_time t ->
  interval_time_sql2py (td_days (ora_time_py2sql t)) (td_secs (ora_time_py2sql t)) (td_us (ora_time_py2sql t)) = Some t.
Proof. exact interval_time_roundtrip. Qed.
Print Assumptions C07_interval_time.

Theorem C07_ora_bool : forall b, ora_bool_sql2py (ora_bool_py2sql b) = b.
Proof. exact ora_bool_roundtrip. Qed.
Print Assumptions C07_ora_bool.

(* SQLite stores a timedelta as the double  days + (seconds + microseconds/1e6)/86400.0  and reads it back with timedelta(days=x):
   bit-exact model over Coq's primitive floats (Model/C07Float.v, tied bit for bit to CPython on every run).  Exact on the completely
   enumerated sub-domains: every whole-second timedelta with -3 <= days < 3 (518,400 values) and every microsecond value of the first
   and the last second of day 0 (2 * 10^6 values).  (Proofs/C07FloatSweep.v extends this to -30 <= days < 30 and to three more
   seconds up to day 20000.)  Beyond 2^52 microseconds it is not exact: Findings/C07.v.  These theorems depend on the kernel's
   primitive float / int operations, which Print Assumptions lists. *)
Theorem C07_timedelta_float_whole_seconds : PonyV.Model.C07Float.exact_whole_seconds_3 = true.
Proof. exact PonyV.Proofs.C07Float.td_float_whole_seconds_exact_3. Qed.
Print Assumptions C07_timedelta_float_whole_seconds.

Theorem C07_timedelta_float_microseconds : PonyV.Model.C07Float.exact_microseconds_day0 = true.
Proof. exact PonyV.Proofs.C07Float.td_float_microseconds_exact_day0. Qed.
Print Assumptions C07_timedelta_float_microseconds.

(* Json and array attributes are stored as text: json.dumps(v, separators=(',', ':'), sort_keys=True, ensure_ascii=False) and read
   with json.loads.  For every value of the JSON subset null / bool / int / str (any code points, with the escapes) / list / dict:
   parsing the printed text gives the value back (printer and parser over code-point lists, Model/C07Json.v, both compared with
   CPython's json on every run; floats are outside this model). *)
Theorem C07_json_text_roundtrip : forall v, valid_jv v -> loads (dumps v) = Some v.
Proof. exact loads_dumps. Qed.
Print Assumptions C07_json_text_roundtrip.

Theorem C07_json_text_prefix : forall v rest, valid_jv v -> ok_rest rest -> parse_value (jcost v) (dumps v ++ rest) = Some (v, rest).
Proof. exact parse_dumps_prefix. Qed.
Print Assumptions C07_json_text_prefix.

(* str / LongStr, bytes and int values go to the driver and come back through converters that do not change them (templates) *)
Theorem C07_identity_transport :
  (forall s, str_sql2py (str_py2sql s) = s) /\ (forall b, bytes_sql2py (bytes_py2sql b) = b) /\ (forall z, int_sql2py (int_py2sql z) = z).
Proof. exact identity_transport. Qed.
Print Assumptions C07_identity_transport.

Example C07_nonvacuous :
  td_str (mk_td (-1) 86399 999999) = [45; 48; 58; 48; 58; 48; 46; 48; 48; 48; 48; 48; 49]
  /\ str2timedelta [45; 48; 58; 48; 58; 48; 46; 48; 48; 48; 48; 48; 49] = Some (mk_td (-1) 86399 999999)
  /\ reload_datetime 3 (mk_dt (mk_date 2024 2 29) (mk_time 23 59 59 999999)) = RVal (mk_dt (mk_date 2024 2 29) (mk_time 23 59 59 999000)).
Proof. exact c07_nonvacuous. Qed.
Print Assumptions C07_nonvacuous.
