(* C17 - A session's writes are atomic under crashes and database errors.
   Property theorems only.  The model (Model/C19Txn.v) produces the trace of driver calls of any sequence of sessions under
   any fault oracle; Model/C17Db.v says what such a trace does to the database file (abstract SQLite semantics, validated
   against real files on every run, including real process crashes).  Traces are newest-first. *)
From Coq Require Import List Bool Arith.
Import ListNotations.
Require Import PonyV.Model.C19Txn PonyV.Model.C17Db PonyV.Model.C17Pg PonyV.Proofs.C19Base PonyV.Proofs.C17Proofs PonyV.Proofs.C17PgProofs.

(* For every sequence of sessions (any shapes: optimistic, immediate, serializable, ddl; any bodies: ORM writes via flush, raw
   db.execute writes, explicit commit / rollback, caught errors) and every fault oracle (a database error at any call):
   - every write statement, ORM or raw, is issued inside an open driver-level transaction (bracketed), where the transaction
     flag of each call is the one determined by the BEGIN IMMEDIATE / COMMIT / ROLLBACK / connect / close calls before it
     on that connection (flags_ok);
   - every COMMIT is issued inside an open transaction and only after all pending ORM changes have been flushed, so each
     commit() emits at most one COMMIT, after all its writes (commits_flushed). *)
Theorem C17_bracket : forall oracle sessions s, WF s -> k_reg s = false -> lock s = false ->
  bracketed (trace s) = true -> commits_flushed (trace s) = true ->
  exists r s', run_sessions oracle sessions s = (r, s') /\ r <> Blocked /\
    bracketed (trace s') = true /\ commits_flushed (trace s') = true /\ flags_ok (trace s') = true.
Proof. exact sessions_c17. Qed.
Print Assumptions C17_bracket.

(* The semantic lemma: in a bracketed trace the committed content of the database changes only at a successful COMMIT ... *)
Theorem C17_commit_only : forall e older, flags_ok (e :: older) = true -> bracketed (e :: older) = true -> ok_commit e = false ->
  crash_db (e :: older) = crash_db older.
Proof. exact comm_step. Qed.
Print Assumptions C17_commit_only.
(* ... and there it gains all the writes of the open transaction at once. *)
Theorem C17_commit_all : forall e older, ok_commit e = true ->
  crash_db (e :: older) = if txn_of (scan older) (e_con e) then fst (db_of older) ++ snd (db_of older) else fst (db_of older).
Proof. exact comm_at_commit. Qed.
Print Assumptions C17_commit_all.

(* All or nothing, for every crash point: if the process dies after any prefix `before` of the calls of the run (equally: an
   injected error ends the session there), the database holds exactly the content of one of the commit points of the run -
   the initial content, or the content right after one of the successful COMMITs; never a part of a transaction. *)
Theorem C17_all_or_nothing : forall oracle sessions s, WF s -> k_reg s = false -> lock s = false ->
  bracketed (trace s) = true -> commits_flushed (trace s) = true ->
  exists r s', run_sessions oracle sessions s = (r, s') /\
    forall after before, trace s' = after ++ before -> In (crash_db before) (commit_points (trace s')).
Proof.
  intros oracle sessions s Hwf Hreg Hlock Hb Hc.
  destruct (sessions_c17 oracle sessions s Hwf Hreg Hlock Hb Hc) as (r & s' & E & _ & Hb' & _ & Hf').
  exists r, s'. split; [exact E|]. intros after before Ht. eapply crash_in_points; eauto.
Qed.
Print Assumptions C17_all_or_nothing.

(* PostgreSQL (modelled from postgres.py WITH a fault oracle: any driver call - execute, commit, rollback, close - may raise a
   database error that is not a lost connection; tied to the real PGProvider / PGPool / SessionCache code driven with a recording,
   fault-injecting stub connection, never executed against a server): for every sequence of sessions of any shape, with any
   selects, writes, commits and rollbacks, caught or uncaught errors, ending normally or with an exception, and whatever autocommit
   state the first connection starts in, every successful write and every COMMIT is issued with connection.autocommit = False -
   inside a driver transaction that only commit() ends - and autocommit is never assigned while a transaction is open. *)
Theorem C17_postgres_autocommit : forall oracle sessions ac,
  pg_writes_ok (g_trace (pg_run oracle sessions (pg_init ac))) = true /\ g_bad (pg_run oracle sessions (pg_init ac)) = false.
Proof. exact pg_writes_lemma. Qed.
Print Assumptions C17_postgres_autocommit.

(* non-vacuity: an optimistic session with two ORM inserts and a raw insert; crash before the COMMIT (call 11 of 13):
   nothing is in the file; after it: all three writes (calls 6, 8, 10) *)
Example C17_nonvacuous :
  let s' := snd (run_sessions (faults_oracle []) [(ShOpt, [(ONew, false); (ONew, false); (ORawWrite, false)])] st_empty) in
  crash_db (skipn 2 (trace s')) = [] /\ crash_db (skipn 1 (trace s')) = [6; 8; 10] /\ length (trace s') = 13 /\
  commit_points (trace s') = [[6; 8; 10]; []].
Proof. vm_compute. repeat split. Qed.
