(* C30 - Raw SQL parameter substitution is faithful.
   Property theorems only: each is closed by `exact <lemma>`; Print Assumptions must report a closed term.
   adapt / parse_expr / the cache are the hand-written executable models of core.adapt_sql, utils.parse_expr and
   adapted_sql_cache (Model/C30Scan.v, Model/C30Adapt.v), tied to /repo by correspondence on every run.  The character
   classes \w and \s are parameters (is_w, is_sp): every theorem holds for all classifications. *)
Require Import PonyV.Base.PyBase PonyV.Model.C06Str PonyV.Model.C06Lex PonyV.Model.C06Params PonyV.Model.C30Scan PonyV.Model.C30Adapt
               PonyV.Proofs.C06StrLemmas PonyV.Proofs.C30Proofs
               PonyV.Model.C30RawType PonyV.Gen.C30RawType PonyV.Proofs.C30RawTypeProofs
               PonyV.Model.C30Regex PonyV.Gen.C30Regex PonyV.Model.C30RegexParse PonyV.Proofs.C30RegexProofs.

(* A statement is a list of segments: text without $, $$, $expression (optionally closed by white space and a semicolon).
   wf_segs: text segments contain no $, and for every expression segment the scanner's cut is where the author's expression
   ends (cut_ok; C30_cut_name gives a syntactic class).  For every paramstyle: the adapted text is the texts in order
   with one placeholder of that style per expression, numbered 1, 2, ...; the arguments are the expressions in order.
   Under format / pyformat the statement that is scanned is the %-doubled one (dbl). *)
Theorem C30_segments : forall is_w is_sp st segs,
  wf_segs is_w is_sp (dbl st segs) -> has_expr segs = true ->
  adapt is_w is_sp st (render segs) = Ok (out_text st (dbl st segs), argsrc_of st (seg_exprs (dbl st segs))).
Proof. exact adapt_segments. Qed.
Print Assumptions C30_segments.

(* no expression: $$ becomes $, every other character is passed through unchanged, no arguments are sent *)
Theorem C30_dollar_only : forall is_w is_sp st segs, wf_segs is_w is_sp segs -> has_expr segs = false ->
  adapt is_w is_sp st (render segs) = Ok (out_text st segs, SrcNone).
Proof. exact adapt_no_expr. Qed.
Print Assumptions C30_dollar_only.

(* the expressions handed to eval() are exactly the author's -- on the complement of the known finding
   (a % inside an expression under format / pyformat) *)
Theorem C30_exprs_except_known : forall st segs, Forall expr_percent_free segs -> seg_exprs (dbl st segs) = seg_exprs segs.
Proof. exact seg_exprs_dbl. Qed.
Print Assumptions C30_exprs_except_known.

Theorem C30_exprs_other_styles : forall st segs, is_fmt st = false -> dbl st segs = segs.
Proof. exact seg_exprs_not_fmt. Qed.
Print Assumptions C30_exprs_other_styles.

(* C30_percent: a text piece is %-doubled under format / pyformat exactly so that the driver's %-step gives it back *)
Theorem C30_percent : forall st t,
  server_text st (seg_text (SText (if is_fmt st then replace_all 37 [37; 37] t else t))) = Some t.
Proof. exact text_seg_server. Qed.
Print Assumptions C30_percent.

(* binding: the driver binds to the placeholders adapt_sql wrote, in text order, the values of the expressions in order *)
Theorem C30_bound : forall (V : Type) (ev : str -> V) st (l : list item), exprs_of l <> [] ->
  match eval_args V ev (argsrc_of st (exprs_of l)) with
  | Some a => bind_all a (toks_placeholders (out_toks st 0 l)) = map (fun e => Some (ev e)) (exprs_of l)
  | None => False
  end.
Proof. exact adapt_bound. Qed.
Print Assumptions C30_bound.

(* a syntactic class of well-cut expressions: $name followed by the end of the statement or by a character that can neither
   continue a name nor start a trailer ( ; . ( [ or white space ) *)
Theorem C30_cut_name : forall is_w is_sp c w rest,
  is_id_start c = true -> forallb is_w w = true -> is_w 59 = false -> stopper is_w is_sp rest ->
  cut_ok is_w is_sp (c :: w) None rest.
Proof. exact cut_ok_name. Qed.
Print Assumptions C30_cut_name.

(* $name <white space> ;  : the semicolon ends the expression and is consumed, whatever follows *)
Theorem C30_cut_name_semi : forall is_w is_sp c w ws rest,
  is_id_start c = true -> forallb is_w w = true -> forallb is_sp ws = true -> (forall d, In d ws -> is_w d = false) ->
  is_w 59 = false -> is_sp 59 = false ->
  cut_ok is_w is_sp (c :: w) (Some ws) rest.
Proof. exact cut_ok_name_semi. Qed.
Print Assumptions C30_cut_name_semi.

(* $name(args) with args free of brackets and quotes, followed by a stopper *)
Theorem C30_cut_call : forall is_w is_sp c w a rest,
  is_id_start c = true -> forallb is_w w = true -> forallb plain_char a = true ->
  is_w 40 = false -> is_sp 40 = false -> is_w 59 = false -> stopper is_w is_sp rest ->
  cut_ok is_w is_sp ((c :: w) ++ 40 :: a ++ [41]) None rest.
Proof. exact cut_ok_call. Qed.
Print Assumptions C30_cut_call.

(* the cache (entry stored under the key it is looked up with, /repo bfddd57): for EVERY history of requests against the
   process-wide cache -- any statements, any paramstyles, any order, failing requests included -- every answer is what
   adapt_sql computes afresh for that request *)
Theorem C30_cache : forall is_w is_sp h,
  run_history is_w is_sp [] h = map (fun rq => adapt is_w is_sp (snd rq) (fst rq)) h.
Proof. exact cache_transparent. Qed.
Print Assumptions C30_cache.

(* raw_sql() fragments inside queries: the fragment's RawSQLType is part of the translator-cache and SQL-cache keys, and the
   cached translator carries the converter of each $parameter's type.  Key soundness (rawtype_eq_fields / rawtype_hash_fields are
   scanned from RawSQLType.__eq__ / __hash__ on every run): fragments that compare equal have the same text and the same
   parameter types; __hash__ only looks at compared fields; the parsed items are determined by the text. *)
Theorem C30_rawtype_key_sound : forall a b, rawtype_eqb a b = true -> rt_sql a = rt_sql b /\ rt_types a = rt_types b.
Proof. exact rawtype_key_sound. Qed.
Print Assumptions C30_rawtype_key_sound.

Theorem C30_rawtype_hash_consistent : forall a b, rawtype_eqb a b = true ->
  forall f, In f rawtype_hash_fields -> field_eqb f a b = true.
Proof. exact rawtype_hash_consistent. Qed.
Print Assumptions C30_rawtype_hash_consistent.

Theorem C30_rawtype_items_determined : forall is_w is_sp a b,
  rt_items a = match parse_raw is_w is_sp (rt_sql a) with Ok l => l | Err _ => [] end ->
  rt_items b = match parse_raw is_w is_sp (rt_sql b) with Ok l => l | Err _ => [] end ->
  rawtype_eqb a b = true -> rt_items a = rt_items b.
Proof. exact rawtype_items_determined. Qed.
Print Assumptions C30_rawtype_items_determined.

(* ---------------------------------------------------------------------------------------------------------------
   The scanner model against a regex-derived specification.  expr1_re / expr2_re / expr3_re (Gen/C30Regex.v) are the three
   compiled patterns of pony.utils.parse_expr, translated from CPython's own parse tree of the pattern text on every run;
   re_match / re_search (Model/C30Regex.v) is a backtracking matcher with Python's priority semantics (first alternative,
   greedy / lazy star, lastindex).  For every classification of \w and \s such that \s contains none of ; . ( [ and no
   identifier start (true of CPython's, checked on every run):
   the scanner steps are exactly the regex results, and parse_expr written literally over the regexes is the scanner. *)
Definition space_class_ok (is_sp : Z -> bool) : Prop :=
  is_sp 59 = false /\ is_sp 46 = false /\ is_sp 40 = false /\ is_sp 91 = false /\ forall c, is_sp c = true -> is_id_start c = false.

Theorem C30_regex_expr1 : forall is_w is_sp, space_class_ok is_sp -> forall s, re_match is_w is_sp expr1_re s = head1 is_w s.
Proof. intros is_w is_sp (H1 & H2 & H3 & H4 & H5). exact (expr1_match is_w is_sp H1 H2 H3 H4). Qed.
Print Assumptions C30_regex_expr1.

Theorem C30_regex_expr2 : forall is_w is_sp, space_class_ok is_sp ->
  forall s, re_match is_w is_sp expr2_re s = option_map erase (trailer is_w is_sp s).
Proof. intros is_w is_sp (H1 & H2 & H3 & H4 & H5). exact (expr2_match is_w is_sp H1 H2 H3 H4 H5). Qed.
Print Assumptions C30_regex_expr2.

Theorem C30_regex_expr3_search : forall is_w is_sp, space_class_ok is_sp ->
  forall s, option_map (fun sr => (tok_kind (fst sr), snd sr)) (re_search is_w is_sp expr3_re s) = next_tok s.
Proof. intros is_w is_sp (H1 & H2 & H3 & H4 & H5). exact (expr3_search is_w is_sp H1 H2 H3 H4). Qed.
Print Assumptions C30_regex_expr3_search.

Theorem C30_parse_expr_is_regex_algorithm : forall is_w is_sp, space_class_ok is_sp ->
  forall s, parse_expr_re is_w is_sp s = parse_expr_rest is_w is_sp s.
Proof. intros is_w is_sp (H1 & H2 & H3 & H4 & H5). exact (parse_expr_re_scanner is_w is_sp H1 H2 H3 H4 H5). Qed.
Print Assumptions C30_parse_expr_is_regex_algorithm.

(* the ASCII classes used by the correspondence run satisfy the hypotheses *)
Theorem C30_ascii_classes_ok : space_class_ok ascii_sp /\ forall extra, (forall c, In c extra -> 128 <= c) -> space_class_ok (tab_sp extra).
Proof.
  assert (A : space_class_ok ascii_sp) by (repeat split; try reflexivity; intros c H; unfold ascii_sp in H; unfold is_id_start; lia).
  split; [exact A|]. intros extra Hx. destruct A as (A1 & A2 & A3 & A4 & A5).
  assert (N : forall c, c < 128 -> existsb (Z.eqb c) extra = false).
  { intros c Hc. destruct (existsb (Z.eqb c) extra) eqn:E; [|reflexivity]. apply existsb_exists in E. destruct E as (x & Hin & Hx2).
    specialize (Hx x Hin). lia. }
  unfold space_class_ok, tab_sp. rewrite A1, A2, A3, A4, !N by lia. repeat split; try reflexivity.
  intros c H. apply orb_true_iff in H. destruct H as [H|H]; [apply A5; exact H|].
  apply existsb_exists in H. destruct H as (x & Hin & Hx2). specialize (Hx x Hin). unfold is_id_start. lia.
Qed.
Print Assumptions C30_ascii_classes_ok.

(* non-vacuity:  select $x, $(y[1]) ;  where a=$$  under numeric and pyformat *)
Example C30_nonvacuous :
  let sql := [115; 32; 36; 120; 44; 32; 36; 40; 121; 91; 49; 93; 41; 32; 59; 32; 119; 32; 97; 61; 36; 36] in
  adapt ascii_w ascii_sp Numeric sql = Ok ([115; 32; 58; 49; 44; 32; 58; 50; 32; 119; 32; 97; 61; 36], SrcTuple [[120]; [40; 121; 91; 49; 93; 41; 32]])
  /\ adapt ascii_w ascii_sp Pyformat sql
     = Ok ([115; 32; 37; 40; 112; 49; 41; 115; 44; 32; 37; 40; 112; 50; 41; 115; 32; 119; 32; 97; 61; 36],
           SrcDict [(1, [120]); (2, [40; 121; 91; 49; 93; 41; 32])])
  /\ wf_segs ascii_w ascii_sp [SText [115; 32]; SExpr [120] None; SText [44; 32]; SExpr [40; 121; 91; 49; 93; 41] (Some [32]); SText [32; 119; 32; 97; 61]; SDollar].
Proof. vm_compute. repeat split; reflexivity. Qed.
