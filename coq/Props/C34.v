(* C34 - Permission checks follow the declared access rules.
   Property theorems only: each is closed by `exact <lemma>`; Print Assumptions must report a closed term.
   Model: Model/C34Perm.v (has_perm with its variation points as parameters; their current values: Gen/C34Src.v, re-read from /repo). *)
From Coq Require Import List Bool Arith.
Import ListNotations.
Require Import PonyV.Model.C34Perm PonyV.Gen.C34Src PonyV.Proofs.C34Proofs.
Require Import PonyV.Model.C34Obs.   (* the 2-entity universe of the correspondence run: built with this cone *)
#[local] Open Scope list_scope.

(* has_perm as it is in /repo (its variation points are re-read from pony/orm/core.py on every run, Gen/C34Src.v) equals the
   specification - for EVERY schema, rule set (in any iteration order), user (groups, roles per object), object (labels) and target:
   entity, attribute (incl. relationship attributes and exclusions on the reverse side) or object *)
Theorem C34_has_perm_spec : forall attr_ent attr_rev attr_hidden obj_ent (rules : nat -> nat -> list rule) ugroups uroles olabels p x,
  has_perm rev_loop_iterates_reverse_rules obj_exclusion_tests_entity missing_reverse_rules_returns_false
           attr_ent attr_rev attr_hidden obj_ent rules ugroups uroles olabels p x = true
  <-> spec attr_ent attr_rev attr_hidden obj_ent rules ugroups uroles olabels p x.
Proof. exact has_perm_now_spec. Qed.
Print Assumptions C34_has_perm_spec.

(* can_view = the specification for 'view' or for 'edit' *)
Theorem C34_can_view_spec : forall attr_ent attr_rev attr_hidden obj_ent (rules : nat -> nat -> list rule) ugroups uroles olabels x,
  can_view rev_loop_iterates_reverse_rules obj_exclusion_tests_entity missing_reverse_rules_returns_false
           attr_ent attr_rev attr_hidden obj_ent rules ugroups uroles olabels x = true
  <-> spec attr_ent attr_rev attr_hidden obj_ent rules ugroups uroles olabels VIEW x
      \/ spec attr_ent attr_rev attr_hidden obj_ent rules ugroups uroles olabels EDIT x.
Proof. exact can_view_now_spec. Qed.
Print Assumptions C34_can_view_spec.

(* to_json never includes an object the declared rules do not let the user view, and refuses exactly when there is one *)
Theorem C34_to_json_spec : forall attr_ent attr_rev attr_hidden obj_ent (rules : nat -> nat -> list rule) ugroups uroles olabels objs l,
  to_json_objects rev_loop_iterates_reverse_rules obj_exclusion_tests_entity missing_reverse_rules_returns_false
                  attr_ent attr_rev attr_hidden obj_ent rules ugroups uroles olabels objs = Some l ->
  l = objs /\ forall o, In o l -> spec attr_ent attr_rev attr_hidden obj_ent rules ugroups uroles olabels VIEW (TObj o)
                                  \/ spec attr_ent attr_rev attr_hidden obj_ent rules ugroups uroles olabels EDIT (TObj o).
Proof. exact to_json_now_spec. Qed.
Print Assumptions C34_to_json_spec.

(* with include=[relationship]: the top object and every object reached through the relationship - already loaded or not - is one
   the declared rules let the user view *)
Theorem C34_to_json_include_spec : forall attr_ent attr_rev attr_hidden obj_ent (rules : nat -> nat -> list rule) ugroups uroles olabels related o l,
  to_json_include rev_loop_iterates_reverse_rules obj_exclusion_tests_entity missing_reverse_rules_returns_false
                  attr_ent attr_rev attr_hidden obj_ent rules ugroups uroles olabels related o = Some l ->
  l = o :: related o /\ forall o', In o' l -> spec attr_ent attr_rev attr_hidden obj_ent rules ugroups uroles olabels VIEW (TObj o')
                                             \/ spec attr_ent attr_rev attr_hidden obj_ent rules ugroups uroles olabels EDIT (TObj o').
Proof. exact to_json_include_now_spec. Qed.
Print Assumptions C34_to_json_include_spec.

Theorem C34_to_json_refuses_spec : forall attr_ent attr_rev attr_hidden obj_ent (rules : nat -> nat -> list rule) ugroups uroles olabels objs,
  to_json_objects rev_loop_iterates_reverse_rules obj_exclusion_tests_entity missing_reverse_rules_returns_false
                  attr_ent attr_rev attr_hidden obj_ent rules ugroups uroles olabels objs = None
  <-> exists o, In o objs /\ ~ (spec attr_ent attr_rev attr_hidden obj_ent rules ugroups uroles olabels VIEW (TObj o)
                               \/ spec attr_ent attr_rev attr_hidden obj_ent rules ugroups uroles olabels EDIT (TObj o)).
Proof. exact to_json_now_refuses. Qed.
Print Assumptions C34_to_json_refuses_spec.

(* the branches separately, and facts that hold for every spelling of the variation points *)
(* entity-level check = specification, for all rule sets, users and schemas *)
Theorem C34_entity : forall (rules : nat -> nat -> list rule) (ugroups : list nat) e p,
  has_perm_entity rules ugroups e p = true <-> spec_entity rules ugroups e p.
Proof. exact entity_spec. Qed.
Print Assumptions C34_entity.

(* object-level check, exact characterisation for both spellings of the exclusion test (f_obj = true is the current source) *)
Theorem C34_object_general : forall (f_obj : bool) obj_ent (rules : nat -> nat -> list rule) ugroups uroles olabels o p,
  has_perm_obj f_obj obj_ent rules ugroups uroles olabels o p = true <->
  exists r, In r (rules (obj_ent o) p) /\ groups_ok ugroups r = true /\ subset (r_roles r) (uroles o) = true
            /\ subset (r_labels r) (olabels o) = true /\ (f_obj = true -> mem (obj_ent o) (r_exclE r) = false).
Proof. exact obj_general. Qed.
Print Assumptions C34_object_general.

Theorem C34_object_grants_all_declared : forall (f_obj : bool) obj_ent (rules : nat -> nat -> list rule) ugroups uroles olabels o p,
  spec_obj obj_ent rules ugroups uroles olabels o p -> has_perm_obj f_obj obj_ent rules ugroups uroles olabels o p = true.
Proof. exact obj_spec_implies_impl. Qed.
Print Assumptions C34_object_grants_all_declared.

(* attribute-level check in closed form, for every value of the variation points: what the loop computes *)
Theorem C34_attr_closed_form : forall (f_rev f_miss : bool) attr_ent attr_rev attr_hidden (rules : nat -> nat -> list rule) ugroups a p,
  has_perm_attr f_rev f_miss attr_ent attr_rev attr_hidden rules ugroups a p =
  if attr_hidden a then false else
  let rs := rules (attr_ent a) p in
  match attr_rev a with
  | None => existsb (fwd attr_ent ugroups a) rs
  | Some rv =>
    match rules (attr_ent rv) p with
    | [] => if f_miss then match rs with [] => false | r :: _ => fwd attr_ent ugroups a r end else existsb (fwd attr_ent ugroups a) rs
    | _ :: _ => match rs with
                | [] => false
                | _ => existsb (fwd attr_ent ugroups a) rs
                       || existsb (grants_attr ugroups (attr_ent rv) rv) (rev_pool f_rev attr_ent rules p rv rs)
                end
    end
  end.
Proof. exact attr_closed_form. Qed.
Print Assumptions C34_attr_closed_form.

Theorem C34_spec_bool : forall attr_ent attr_rev attr_hidden obj_ent (rules : nat -> nat -> list rule) ugroups uroles olabels p x,
  spec_b attr_ent attr_rev attr_hidden obj_ent rules ugroups uroles olabels p x = true
  <-> spec attr_ent attr_rev attr_hidden obj_ent rules ugroups uroles olabels p x.
Proof. exact spec_b_iff. Qed.
Print Assumptions C34_spec_bool.

(* can_view = view or edit *)
Theorem C34_can_view : forall (f_rev f_obj f_miss : bool) attr_ent attr_rev attr_hidden obj_ent (rules : nat -> nat -> list rule) ugroups uroles olabels x,
  can_view f_rev f_obj f_miss attr_ent attr_rev attr_hidden obj_ent rules ugroups uroles olabels x = true
  <-> has_perm f_rev f_obj f_miss attr_ent attr_rev attr_hidden obj_ent rules ugroups uroles olabels VIEW x = true
      \/ has_perm f_rev f_obj f_miss attr_ent attr_rev attr_hidden obj_ent rules ugroups uroles olabels EDIT x = true.
Proof. exact can_view_iff. Qed.
Print Assumptions C34_can_view.

(* to_json never includes an object can_view refuses; it refuses the whole call exactly when there is one *)
Theorem C34_to_json : forall (f_rev f_obj f_miss : bool) attr_ent attr_rev attr_hidden obj_ent (rules : nat -> nat -> list rule) ugroups uroles olabels objs l,
  to_json_objects f_rev f_obj f_miss attr_ent attr_rev attr_hidden obj_ent rules ugroups uroles olabels objs = Some l ->
  l = objs /\ forall o, In o l -> can_view f_rev f_obj f_miss attr_ent attr_rev attr_hidden obj_ent rules ugroups uroles olabels (TObj o) = true.
Proof. exact to_json_only_viewable. Qed.
Print Assumptions C34_to_json.

Theorem C34_to_json_refuses : forall (f_rev f_obj f_miss : bool) attr_ent attr_rev attr_hidden obj_ent (rules : nat -> nat -> list rule) ugroups uroles olabels objs,
  to_json_objects f_rev f_obj f_miss attr_ent attr_rev attr_hidden obj_ent rules ugroups uroles olabels objs = None
  <-> exists o, In o objs /\ can_view f_rev f_obj f_miss attr_ent attr_rev attr_hidden obj_ent rules ugroups uroles olabels (TObj o) = false.
Proof. exact to_json_refuses. Qed.
Print Assumptions C34_to_json_refuses.

(* repeated checks: once has_perm(user, p, x) has been asked in a session, every later call for the same (p, x) - after any other
   checks, and whatever the group / role / label providers would answer by then - returns the same answer *)
Theorem C34_stable : forall (f_rev f_obj f_miss : bool) attr_ent attr_rev attr_hidden obj_ent (rules : nat -> nat -> list rule)
    (groups_at : nat -> list nat) (roles_at labels_at : nat -> nat -> list nat) c t p x h t',
  snd (check f_rev f_obj f_miss attr_ent attr_rev attr_hidden obj_ent rules groups_at roles_at labels_at
         (after f_rev f_obj f_miss attr_ent attr_rev attr_hidden obj_ent rules groups_at roles_at labels_at
            (fst (check f_rev f_obj f_miss attr_ent attr_rev attr_hidden obj_ent rules groups_at roles_at labels_at c t p x)) h) t' p x)
  = snd (check f_rev f_obj f_miss attr_ent attr_rev attr_hidden obj_ent rules groups_at roles_at labels_at c t p x).
Proof. exact stable. Qed.
Print Assumptions C34_stable.

(* the schema section of to_json lists an attribute only if the declared rules let the user view its entity, the attribute and -
   for a relationship - the entity and attribute on the other side; an entity iff the rules let him view it *)
Theorem C34_schema_spec : forall attr_ent attr_rev attr_hidden obj_ent (rules : nat -> nat -> list rule) ugroups uroles olabels a,
  schema_attr rev_loop_iterates_reverse_rules obj_exclusion_tests_entity missing_reverse_rules_returns_false
              attr_ent attr_rev attr_hidden obj_ent rules ugroups uroles olabels a = true ->
  (spec attr_ent attr_rev attr_hidden obj_ent rules ugroups uroles olabels VIEW (TEntity (attr_ent a))
   \/ spec attr_ent attr_rev attr_hidden obj_ent rules ugroups uroles olabels EDIT (TEntity (attr_ent a)))
  /\ (spec attr_ent attr_rev attr_hidden obj_ent rules ugroups uroles olabels VIEW (TAttr a)
      \/ spec attr_ent attr_rev attr_hidden obj_ent rules ugroups uroles olabels EDIT (TAttr a))
  /\ (forall rv, attr_rev a = Some rv ->
        (spec attr_ent attr_rev attr_hidden obj_ent rules ugroups uroles olabels VIEW (TEntity (attr_ent rv))
         \/ spec attr_ent attr_rev attr_hidden obj_ent rules ugroups uroles olabels EDIT (TEntity (attr_ent rv)))
        /\ (spec attr_ent attr_rev attr_hidden obj_ent rules ugroups uroles olabels VIEW (TAttr rv)
            \/ spec attr_ent attr_rev attr_hidden obj_ent rules ugroups uroles olabels EDIT (TAttr rv))).
Proof. exact schema_now_spec. Qed.
Print Assumptions C34_schema_spec.

Theorem C34_schema_entity_spec : forall attr_ent attr_rev attr_hidden obj_ent (rules : nat -> nat -> list rule) ugroups uroles olabels e,
  schema_entity rev_loop_iterates_reverse_rules obj_exclusion_tests_entity missing_reverse_rules_returns_false
                attr_ent attr_rev attr_hidden obj_ent rules ugroups uroles olabels e = true
  <-> spec attr_ent attr_rev attr_hidden obj_ent rules ugroups uroles olabels VIEW (TEntity e)
      \/ spec attr_ent attr_rev attr_hidden obj_ent rules ugroups uroles olabels EDIT (TEntity e).
Proof. exact schema_entity_now_spec. Qed.
Print Assumptions C34_schema_entity_spec.

(* declarations and inheritance: a rule declared (set_perms_for + perm) for a base entity is in the rule set of the base and of
   every subclass; an entity's rule set consists exactly of the rules declared for itself or an ancestor; exclude(Entity) covers
   the subclasses; a hidden attribute is never granted *)
Theorem C34_declared_rule_reaches_subclasses : forall subs ds d base sub p,
  In d ds -> In base (d_ctx d) -> In sub (subs base) -> In p (d_perms d) ->
  In (expand subs d) (rules_of_decls subs ds base p) /\ In (expand subs d) (rules_of_decls subs ds sub p).
Proof. exact declared_rule_reaches_subclasses. Qed.
Print Assumptions C34_declared_rule_reaches_subclasses.

Theorem C34_rules_of_declarations : forall subs ds e p r,
  In r (rules_of_decls subs ds e p) <->
  exists d, In d ds /\ r = expand subs d /\ In p (d_perms d) /\ (In e (d_ctx d) \/ exists base, In base (d_ctx d) /\ In e (subs base)).
Proof. exact rules_of_decls_exact. Qed.
Print Assumptions C34_rules_of_declarations.

Theorem C34_exclusion_reaches_subclasses : forall subs d base sub,
  In base (r_exclE (d_rule d)) -> In sub (subs base) ->
  mem base (r_exclE (expand subs d)) = true /\ mem sub (r_exclE (expand subs d)) = true.
Proof. exact exclusion_reaches_subclasses. Qed.
Print Assumptions C34_exclusion_reaches_subclasses.

Theorem C34_hidden_attribute_never_granted : forall f_rev f_miss attr_ent attr_rev attr_hidden (rules : nat -> nat -> list rule) ugroups a p,
  attr_hidden a = true -> has_perm_attr f_rev f_miss attr_ent attr_rev attr_hidden rules ugroups a p = false.
Proof. exact hidden_attr_never_granted. Qed.
Print Assumptions C34_hidden_attribute_never_granted.

(* ... and across sessions: however the previous session of the thread ended (commit, or rollback after an exception / a failed
   commit), the first check of the next session is answered from what the group / role / label providers say at that moment -
   no answer of an earlier session's providers survives (where the caches are cleared is re-read from _commit_or_rollback) *)
Theorem C34_fresh_after_session_end : forall attr_ent attr_rev attr_hidden obj_ent (rules : nat -> nat -> list rule)
    (groups_at : nat -> list nat) (roles_at labels_at : nat -> nat -> list nat) committed c t p x,
  snd (check rev_loop_iterates_reverse_rules obj_exclusion_tests_entity missing_reverse_rules_returns_false
             attr_ent attr_rev attr_hidden obj_ent rules groups_at roles_at labels_at
             (end_session provider_caches_cleared_on_commit provider_caches_cleared_on_rollback committed c) t p x)
  = answer rev_loop_iterates_reverse_rules obj_exclusion_tests_entity missing_reverse_rules_returns_false
           attr_ent attr_rev attr_hidden obj_ent rules
           (groups_at t) (match x with TObj o => roles_at t o | _ => [] end) (match x with TObj o => labels_at t o | _ => [] end) p x.
Proof. exact fresh_after_session_end_now. Qed.
Print Assumptions C34_fresh_after_session_end.

(* not vacuous: a rule for group 1 with role 1 and label 1 grants exactly the object that carries them *)
Example C34_nonvacuous :
  let rules := fun e p => if (e =? 0) && (p =? 0) then [mkrule [0; 1] [1] [1] [] [2]] else [] in
  has_perm_obj true (fun _ => 0) rules [0; 1] (fun o => if o =? 5 then [1] else []) (fun o => [1]) 5 0 = true
  /\ has_perm_obj true (fun _ => 0) rules [0; 1] (fun o => if o =? 5 then [1] else []) (fun o => [1]) 6 0 = false
  /\ has_perm_attr true false (fun _ => 0) (fun _ => None) (fun _ => false) rules [0; 1] 2 0 = false
  /\ has_perm_attr true false (fun _ => 0) (fun _ => None) (fun _ => false) rules [0; 1] 3 0 = true.
Proof. vm_compute. repeat split; reflexivity. Qed.
Print Assumptions C34_nonvacuous.
