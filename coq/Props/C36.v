(* C36 - A forked process never uses its parent's database connection.
   Property theorems only: each is closed by `exact <lemma>`; Print Assumptions must report a closed term.
   pool_connect / ora_connect are re-translated from /repo's Pool.connect / OraPool.connect on every run (Gen/C36Pool.v);
   the process/fork model around them is Model/C36Fork.v (tied by the real-fork correspondence run). *)
From Coq Require Import ZArith List Bool.
Import ListNotations.
Require Import PonyV.Model.C36Base PonyV.Gen.C36Pool PonyV.Model.C36Fork PonyV.Proofs.C36Proofs.
#[local] Open Scope Z_scope.

(* For EVERY history of the parent (sessions, queries, failing connects, dropped connections, disconnect()) and EVERY sequence of
   session operations of the child (including statements whose connect attempt fails): if at the moment of the fork the parent's session does not hold a connection (no session / session begun but no
   statement yet / connection back in the pool / never connected / disconnected), then every connection object the child creates,
   uses or closes was created by the child, and no pool assertion fails.  This is the exact complement of the known finding. *)
Theorem C36_child_except_known : forall p q parent_ops child_ops,
  let par := run (init p) parent_ops in
  ccon par = None ->
  forallb is_session_op child_ops = true ->
  Forall (own q) (log (run (fork par q) child_ops)).
Proof. exact child_safe. Qed.
Print Assumptions C36_child_except_known.

(* ... and db.disconnect() is no exception (whether Pool.disconnect compares pids is re-read from the source on every run and
   required to be true): for EVERY sequence of child operations, disconnect() included, the child touches only connection objects
   it created itself; an inherited pooled connection is parked in forked_connections, not closed *)
Theorem C36_child_with_disconnect : forall p q parent_ops child_ops,
  let par := run (init p) parent_ops in
  ccon par = None ->
  Forall (own q) (log (run (fork par q) child_ops)).
Proof. exact child_safe_all_ops. Qed.
Print Assumptions C36_child_with_disconnect.

Theorem C36_child_disconnect_parks :
  let par := run (init 1) [OBegin; OQuery; OEnd] in
  log (run (fork par 2) [ODisconnect]) = [] /\ forked (run (fork par 2) [ODisconnect]) = [((1, 1), Some 1)]
  /\ pcon (run (fork par 2) [ODisconnect]) = None.
Proof. exact child_disconnect_parks. Qed.
Print Assumptions C36_child_disconnect_parks.

(* the parent, at any time (fork does not change it): touches only connection objects it created; what sits in its pool and in
   its live session is its own *)
Theorem C36_parent : forall p ops,
  Forall (own p) (log (run (init p) ops))
  /\ (forall c, pcon (run (init p) ops) = Some c -> creator c = p)
  /\ (forall c, ccon (run (init p) ops) = Some c -> creator c = p).
Proof. exact parent_safe. Qed.
Print Assumptions C36_parent.

(* fork with a connection idle in the pool: the child's first statement opens a new connection and parks the inherited object in
   forked_connections (kept referenced, never closed, never used) *)
Theorem C36_child_first_statement : forall p q parent_ops c,
  p <> q ->
  let par := run (init p) parent_ops in
  ccon par = None -> pcon par = Some c ->
  log (run (fork par q) [OBegin; OQuery]) = [ECreate q (q, serial par + 1); EUse q (q, serial par + 1)]
  /\ forked (run (fork par q) [OBegin; OQuery]) = forked par ++ [(c, Some p)].
Proof. exact child_first_query_creates. Qed.
Print Assumptions C36_child_first_statement.

(* Pool.connect as translated from the source, with an oracle for pool._connect() raising.  Both ways it can end: returned
   normally - what it hands out belongs to the caller; raised - the pool holds no connection afterwards *)
Theorem C36_pool_connect : forall ok q pc pp fk fresh pc' pp' fk' isnew ok',
  (forall c, pc = Some c -> pp = Some (creator c)) ->
  creator fresh = q ->
  pool_connect ok q pc pp fk fresh = (pc', pp', fk', isnew, ok') ->
  (ok' = true /\ exists c, pc' = Some c /\ creator c = q /\ pp' = Some q
                          /\ (isnew = true -> c = fresh) /\ (isnew = false -> pc = Some c /\ fk' = fk))
  \/ (ok' = false /\ ok = false /\ pc' = None).
Proof. exact pool_connect_cases. Qed.
Print Assumptions C36_pool_connect.

(* after a failed connect the pool never holds a connection - in particular not one created by another process *)
Theorem C36_failed_connect_leaves_pool_empty : forall ok q pc pp fk fresh pc' pp' fk' isnew,
  pool_connect ok q pc pp fk fresh = (pc', pp', fk', isnew, false) -> pc' = None.
Proof. exact pool_connect_failed. Qed.
Print Assumptions C36_failed_connect_leaves_pool_empty.

(* fork with a pooled connection, the child's first connect attempt fails, the child tries again: its own connection *)
Theorem C36_child_failed_first_connect : forall p q parent_ops c,
  p <> q ->
  let par := run (init p) parent_ops in
  ccon par = None -> pcon par = Some c ->
  let ch := run (fork par q) [OBegin; OQueryFail] in
  pcon ch = None /\ ccon ch = None /\ log ch = [] /\ forked ch = forked par ++ [(c, Some p)]
  /\ log (run ch [OQuery]) = [ECreate q (q, serial par + 1); EUse q (q, serial par + 1)].
Proof. exact child_failed_first_connect. Qed.
Print Assumptions C36_child_failed_first_connect.

Theorem C36_pool_connect_same_process : forall ok q c fk fresh,
  pool_connect ok q (Some c) (Some q) fk fresh = (Some c, Some q, fk, false, true).
Proof. exact pool_connect_same_process. Qed.
Print Assumptions C36_pool_connect_same_process.

(* SQLitePool.__init__ does not set pool.pid: it is not read before the first connect sets it *)
Theorem C36_sqlite_pid_unset_not_read : forall q fk fresh pp,
  pool_connect true q None pp fk fresh = (Some fresh, Some q, fk, true, true).
Proof. exact pool_connect_unset_pid_not_read. Qed.
Print Assumptions C36_sqlite_pid_unset_not_read.

(* OraPool.connect as translated, with oracles for cx_Oracle.SessionPool(...) and cx_pool.acquire() raising: in every ending the
   recorded pid is the creator of the pool it belongs to; a connection that is handed out comes from a pool created by the caller *)
Theorem C36_oracle_connect : forall pool_ok acquire_ok q cx0 pid0 fk fresh,
  creator cx0 = pid0 -> creator fresh = q ->
  let '(c, cx', pid', fk', isnew) := ora_connect pool_ok acquire_ok q cx0 pid0 fk fresh in
  creator cx' = pid' /\ (forall k, c = Some k -> creator k = q /\ pid' = q).
Proof. exact ora_connect_own. Qed.
Print Assumptions C36_oracle_connect.

Theorem C36_oracle_after_fork : forall q p cx0 fk fresh,
  p <> q -> ora_connect true true q cx0 p fk fresh = (Some (acquire fresh), fresh, q, fk ++ [(cx0, p)], true).
Proof. exact ora_connect_after_fork. Qed.
Print Assumptions C36_oracle_after_fork.

Theorem C36_oracle_after_fork_pool_creation_fails : forall q p cx0 fk fresh acquire_ok,
  p <> q ->
  ora_connect false acquire_ok q cx0 p fk fresh = (None, cx0, p, fk ++ [(cx0, p)], false)
  /\ ora_connect true true q cx0 p (fk ++ [(cx0, p)]) fresh = (Some (acquire fresh), fresh, q, (fk ++ [(cx0, p)]) ++ [(cx0, p)], true).
Proof. exact ora_connect_after_fork_pool_fails_then_retry. Qed.
Print Assumptions C36_oracle_after_fork_pool_creation_fails.

(* hypotheses satisfiable, model not trivial: parent runs a session, forks with the connection pooled; child runs two sessions *)
Example C36_nonvacuous :
  let par := run (init 1) [OBegin; OQuery; OEnd] in
  ccon par = None /\ pcon par = Some (1, 1)
  /\ log (run (fork par 2) [OBegin; OQuery; OEnd; OBegin; OQuery; OEnd])
     = [ECreate 2 (2, 2); EUse 2 (2, 2); EUse 2 (2, 2); EUse 2 (2, 2); EUse 2 (2, 2); EUse 2 (2, 2); EUse 2 (2, 2)].
Proof. vm_compute. repeat split; reflexivity. Qed.
Print Assumptions C36_nonvacuous.
