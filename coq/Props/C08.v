(* C08 - Validation enforces declared attribute constraints.
   Property theorems only: each is closed by `exact <lemma>`; Print Assumptions must report a closed term.

   The functions int_init, int_validate, real_validate, dec_validate, str_validate, attr_none, req_validate are
   re-translated from /repo on every run (Gen/C08Conv.v); attribute_validate / required_validate (Model/C08Spec.v) compose
   them as Attribute.validate / Required.validate do and are compared with the real attr.validate on every run.

   int, float (NaN included), str and the declared type of every converter incl. bool: the full statements.  The defects this check
   found (a declared bound of 0 dropped; NaN passing declared bounds; max_len = 0 ignored; bool() applied to any value) were
   repaired in /repo commits 2abc421, 5df2d83, d8f353a, 2d5f552; the proofs compute the corresponding flags from the regenerated
   translation (int_flag_false, real_flag_false, real_nan_flag_false, str_flag_false, bool_flag_false), so reverting a repair
   breaks them.  Remaining finding: Decimal precision/scale are never compared with the value (Findings/C08.v). *)
Require Import PonyV.Base.PyBase PonyV.Model.C08Base PonyV.Gen.C08Conv PonyV.Model.C08Spec PonyV.Proofs.C08IntInit PonyV.Proofs.C08Proofs.

(* Which int declarations (size, unsigned, min, max) Pony accepts: exactly those with a legal size, a supported
   unsigned 64-bit type, and declared bounds inside the range of the declared size and signedness. *)
Theorem C08_int_declaration : forall uint64 d,
  (exists c, init_of uint64 d = Ok c) <-> decl_ok uint64 d.
Proof. exact int_decl_ok_iff. Qed.
Print Assumptions C08_int_declaration.

(* For every accepted declaration and EVERY integer v: v is accepted (unchanged) iff it satisfies the declared min/max
   and the bounds of the declared size/signedness; otherwise ValueError. *)
Theorem C08_int : forall uint64 d c v,
  init_of uint64 d = Ok c ->
  (int_validate (ic_min c) (ic_max c) v = Ok v <-> in_bounds d v).
Proof. exact int_accept. Qed.
Print Assumptions C08_int.

Theorem C08_int_reject : forall uint64 d c v,
  init_of uint64 d = Ok c -> ~ in_bounds d v ->
  int_validate (ic_min c) (ic_max c) v = Err ValueError.
Proof. exact int_reject. Qed.
Print Assumptions C08_int_reject.

(* float attributes: EVERY value (NaN and infinities included), every pair of non-NaN declared bounds, zero included;
   NaN is within bounds only when no bound is declared *)
Theorem C08_float : forall mn mx v,
  not_nan_opt mn -> not_nan_opt mx ->
  (real_validate mn mx v = Ok v <-> num_in_bounds mn mx v).
Proof. exact real_accept_all. Qed.
Print Assumptions C08_float.

Theorem C08_float_reject : forall mn mx v, real_validate mn mx v <> Ok v -> real_validate mn mx v = Err ValueError.
Proof. exact real_reject. Qed.
Print Assumptions C08_float_reject.

(* Decimal attributes: the full statement (zero bounds included) *)
Theorem C08_decimal : forall mn mx v,
  v <> NNan -> not_nan_opt mn -> not_nan_opt mx ->
  (dec_validate mn mx v = Ok v <-> num_in_bounds mn mx v).
Proof. exact dec_accept. Qed.
Print Assumptions C08_decimal.

Theorem C08_decimal_reject : forall mn mx v, dec_validate mn mx v <> Ok v -> dec_validate mn mx v = Err ValueError.
Proof. exact dec_reject. Qed.
Print Assumptions C08_decimal_reject.

(* str attributes: for every string, accepted iff the (auto-stripped) value is at most max_len long; the value stored is the
   normalised one; strip() removes exactly a maximal whitespace prefix and suffix *)
Theorem C08_str : forall autostrip max_len s,
  str_validate autostrip max_len s = Ok (str_norm autostrip s) <-> le_opt max_len (zlen (str_norm autostrip s)).
Proof. exact str_accept. Qed.
Print Assumptions C08_str.

Theorem C08_str_reject : forall autostrip max_len s,
  ~ le_opt max_len (zlen (str_norm autostrip s)) -> str_validate autostrip max_len s = Err ValueError.
Proof. exact str_reject. Qed.
Print Assumptions C08_str_reject.

Theorem C08_str_value : forall autostrip max_len s r, str_validate autostrip max_len s = Ok r -> r = str_norm autostrip s.
Proof. exact str_validate_value. Qed.
Print Assumptions C08_str_value.

Theorem C08_strip_spec : forall s,
  exists a b, s = a ++ py_strip s ++ b /\ forallb is_space a = true /\ forallb is_space b = true
              /\ match py_strip s with c :: _ => is_space c = false | [] => True end
              /\ match rev (py_strip s) with c :: _ => is_space c = false | [] => True end.
Proof. exact py_strip_spec. Qed.
Print Assumptions C08_strip_spec.

Theorem C08_is_space_bounded : forall c, is_space c = true -> 9 <= c <= 12288.
Proof. exact is_space_bounded. Qed.
Print Assumptions C08_is_space_bounded.

(* nullability / required-ness / py_check, for any value type, converter and check function *)
Theorem C08_optional : forall V (conv : V -> result V) py_check nullable val r,
  attribute_validate conv py_check nullable false val = Ok r <->
  (val = None /\ nullable = Some true /\ r = None) \/
  (exists v v', val = Some v /\ conv v = Ok v' /\ check_ok py_check v' /\ r = Some v').
Proof. exact optional_accepts. Qed.
Print Assumptions C08_optional.

Theorem C08_required : forall V (conv : V -> result V) py_check is_empty nullable val r,
  required_validate conv py_check is_empty nullable false false false val = Ok r <->
  exists v v', val = Some v /\ conv v = Ok v' /\ check_ok py_check v' /\ is_empty v' = false /\ r = Some v'.
Proof. exact required_accepts. Qed.
Print Assumptions C08_required.

Theorem C08_required_rejects : forall V (conv : V -> result V) py_check is_empty nullable val c,
  required_validate conv py_check is_empty nullable false false false val = Err c ->
  c = ValueError \/ exists v, val = Some v /\ conv v = Err c.
Proof. exact required_rejects. Qed.
Print Assumptions C08_required_rejects.

Theorem C08_required_none_deferred : forall V (conv : V -> result V) py_check is_empty nullable auto vol sqld,
  required_validate conv py_check is_empty nullable auto vol sqld None = Ok None <-> auto || vol || sqld = true.
Proof. exact required_none_deferred. Qed.
Print Assumptions C08_required_none_deferred.

(* end to end: Required(int, size=.., unsigned=.., min=.., max=.., py_check=..) *)
Theorem C08_required_int : forall uint64 d c chk nullable val r,
  init_of uint64 d = Ok c ->
  (required_validate (int_validate (ic_min c) (ic_max c)) chk (fun _ => false) nullable false false false val = Ok r <->
   exists v, val = Some v /\ in_bounds d v /\ check_ok chk v /\ r = Some v).
Proof. exact required_int. Qed.
Print Assumptions C08_required_int.

(* assignment obj.attr = v (Attribute.__set__, scanned from source on every run): the value is validated on EVERY assignment,
   whatever the object currently holds (an equal value of another type, a value written past the ORM that violates the
   declaration, ...); for an int attribute: accepted iff within the declared bounds, in every prior state *)
Theorem C08_assignment_validates : forall V (validate : V -> result V) held v, attr_set_outcome validate held v = validate v.
Proof. exact assign_validates. Qed.
Print Assumptions C08_assignment_validates.

Theorem C08_assignment_state_independent : forall V (validate : V -> result V) held held' v,
  attr_set_outcome validate held v = attr_set_outcome validate held' v.
Proof. exact assign_state_independent. Qed.
Print Assumptions C08_assignment_state_independent.

Theorem C08_assignment_int : forall uint64 d c held v,
  init_of uint64 d = Ok c ->
  (attr_set_outcome (int_validate (ic_min c) (ic_max c)) held v = Ok v <-> in_bounds d v).
Proof. exact assign_int. Qed.
Print Assumptions C08_assignment_int.

(* declared TYPE: for every converter, a value is accepted only if its Python type is the declared one or a documented coercion
   of it (bool: bool and int), the value validate goes on with has the declared type, the declared type itself is always accepted,
   and a refusal is a TypeError or ValueError.  (type_dispatch: interpreted from each converter's validate on every run, one
   representative value per Python type.) *)
Theorem C08_declared_type : forall c t r,
  type_dispatch c t = TyAccept r -> tag_in t (type_allowed c) = true /\ r = type_result c t.
Proof. exact type_accept_sound. Qed.
Print Assumptions C08_declared_type.

Theorem C08_declared_type_accepted : forall c t, tag_in t (type_core c) = true -> type_dispatch c t = TyAccept (type_result c t).
Proof. exact type_core_accepted. Qed.
Print Assumptions C08_declared_type_accepted.

Theorem C08_type_reject_class : forall c t cls, type_dispatch c t = TyReject cls -> cls = TypeError \/ cls = ValueError.
Proof. exact type_reject_class. Qed.
Print Assumptions C08_type_reject_class.

(* Decimal(precision, scale): accepted declarations are exactly 0 < scale <= precision (scale 0 is refused!) *)
Theorem C08_decimal_declaration : forall p s, (exists r, dec_init p s = Ok r) <-> 0 < p /\ 0 < s /\ s <= p.
Proof. exact dec_init_ok_iff. Qed.
Print Assumptions C08_decimal_declaration.

(* creation, set(), get()/exists()/[] lookups and select/filter keyword arguments validate every value first (call sites scanned) *)
Theorem C08_entry_points_validate : forall V (validate : V -> result V) v,
  create_outcome validate v = validate v /\ set_outcome validate v = validate v /\ get_outcome validate v = validate v
  /\ filter_outcome validate v = validate v.
Proof. exact routes_validate. Qed.
Print Assumptions C08_entry_points_validate.

(* a raw key value given for a relationship attribute (Entry.profile -> Profile.account -> Account.id, any depth) is validated by the
   innermost key attribute: EntityMeta._get_by_raw_pkval_ forwards from_db on the nested call (scanned from source on every run) *)
Theorem C08_raw_key_through_relations : forall V (validate : V -> result V) hops v, raw_key_outcome validate hops v = validate v.
Proof. exact raw_key_validates. Qed.
Print Assumptions C08_raw_key_through_relations.

(* non-vacuity: size=16, min=0, max=300 is an accepted declaration, accepts 0 and 300, rejects -1 and 301 *)
Example C08_nonvacuous :
  exists c, init_of true (mk_int_decl (Some 16) (Some false) (Some 0) (Some 300)) = Ok c
            /\ int_validate (ic_min c) (ic_max c) 0 = Ok 0 /\ int_validate (ic_min c) (ic_max c) 300 = Ok 300
            /\ int_validate (ic_min c) (ic_max c) (-1) = Err ValueError /\ int_validate (ic_min c) (ic_max c) 301 = Err ValueError.
Proof. exact c08_nonvacuous_int. Qed.
Print Assumptions C08_nonvacuous.
