(* C06 - Values reach the database unchanged: parameters, literals and identifiers.
   Property theorems only: each is closed by `exact <lemma>`; Print Assumptions must report a closed term.
   quote_str, *_value_str, value_bytes, quote_name(_seq), param_str, mod_symbol, like_* are re-translated from /repo on
   every run (Gen/C06Quote.v); lex_std / lex_ident / like_match / lex_blob are the receiving side (Model/C06Lex.v). *)
Require Import PonyV.Base.PyBase PonyV.Model.C06Str PonyV.Model.C06Lex PonyV.Model.C06Params PonyV.Gen.C06Quote
               PonyV.Model.C06Stmt PonyV.Proofs.C06StrLemmas PonyV.Proofs.C06Proofs
               PonyV.Gen.C06Pin PonyV.Model.C06Pin PonyV.Proofs.C06PinProofs
               PonyV.Model.C07Base PonyV.Model.C07Fmt PonyV.Gen.C07Codec PonyV.Model.C07Codec PonyV.Proofs.C07Proofs PonyV.Proofs.C07Timedelta
               PonyV.Model.C06Lit PonyV.Gen.C06Lit PonyV.Proofs.C06LitProofs PonyV.Model.C06Tok PonyV.Proofs.C06TokProofs.

(* (1) a standard-SQL lexer reads back exactly s from the literal Pony writes, nothing is left after the closing quote
   (qmark / numeric / named: the statement text goes to the server as is) *)
Theorem C06_literal_std : forall st s, style_in st [Format; Pyformat] = false -> lex_std (quote_str st s) = Some s.
Proof. exact literal_std. Qed.
Print Assumptions C06_literal_std.

(* (2) format / pyformat: after the driver's %-formatting step (%% -> %) the same holds, and the step succeeds *)
Theorem C06_literal_fmt : forall st s, style_in st [Format; Pyformat] = true ->
  match fmt_subst (quote_str st s) with Some t => lex_std t | None => None end = Some s.
Proof. exact literal_fmt. Qed.
Print Assumptions C06_literal_fmt.

(* (1)+(2) for all five styles at once *)
Theorem C06_literal_all_styles : forall st s, server_lex st (quote_str st s) = Some s.
Proof. exact literal_all_styles. Qed.
Print Assumptions C06_literal_all_styles.

(* no value changes the structure of the statement: whatever follows the literal (anything but another quote character)
   is where the lexer continues; for format styles the %-step creates no argument slot inside the literal *)
Theorem C06_literal_in_context : forall st s post, style_in st [Format; Pyformat] = false -> (forall r, post <> 39 :: r) ->
  lex_quoted 39 (quote_str st s ++ post) = Some (s, post).
Proof. exact literal_in_context. Qed.
Print Assumptions C06_literal_in_context.

Theorem C06_literal_fmt_in_context : forall st s post, style_in st [Format; Pyformat] = true ->
  fmt_scan (quote_str st s ++ post) = opt_app (map FChar (39 :: replace_all 39 [39; 39] s ++ [39])) (fmt_scan post).
Proof. exact literal_fmt_in_context. Qed.
Print Assumptions C06_literal_fmt_in_context.

(* the provider classes (SQLiteValue, MySQLValue, PGValue) render a str through the same quote_str *)
Theorem C06_value_classes : forall st s,
  value_str st s = quote_str st s /\ sqlite_value_str st s = quote_str st s /\
  mysql_value_str st s = quote_str st s /\ pg_value_str st s = quote_str st s.
Proof. exact value_str_paths. Qed.
Print Assumptions C06_value_classes.

(* (3) identifiers: every name, including names containing the quote character, reads back unchanged; in context; dotted *)
Theorem C06_ident : forall q n, lex_ident q (quote_name q n) = Some n.
Proof. exact ident_roundtrip. Qed.
Print Assumptions C06_ident.

Theorem C06_ident_in_context : forall q n post, (forall r, post <> q :: r) ->
  lex_quoted q (quote_name q n ++ post) = Some (n, post).
Proof. exact ident_in_context. Qed.
Print Assumptions C06_ident_in_context.

Theorem C06_ident_dotted : forall q names, q <> 46 -> names <> [] ->
  lex_dotted q (length names) (quote_name_seq q names) = Some names.
Proof. exact ident_seq_roundtrip. Qed.
Print Assumptions C06_ident_dotted.

(* identifiers under format / pyformat (driver's %-step, documentation model): on the complement of the known finding *)
Theorem C06_ident_fmt_except_known : forall q n, q <> 37 -> mem_char 37 n = false ->
  match fmt_subst (quote_name q n) with Some t => lex_ident q t | None => None end = Some n.
Proof. exact ident_fmt_no_percent. Qed.
Print Assumptions C06_ident_fmt_except_known.

(* (4) LIKE: for every value v and subject s the condition Pony builds is true exactly when v is an infix / prefix /
   suffix of s -- constant branch (escaping done in Python, ESCAPE only when needed) and parameter branch
   (escaping done by nested SQL replace()), escape character as read from the source *)
Theorem C06_like_contains_const : forall v s, like_of (like_const_contains v) s = true <-> is_infix v s.
Proof. exact like_const_contains_ok. Qed.
Print Assumptions C06_like_contains_const.
Theorem C06_like_startswith_const : forall v s, like_of (like_const_startswith v) s = true <-> is_prefix v s.
Proof. exact like_const_startswith_ok. Qed.
Print Assumptions C06_like_startswith_const.
Theorem C06_like_endswith_const : forall v s, like_of (like_const_endswith v) s = true <-> is_suffix v s.
Proof. exact like_const_endswith_ok. Qed.
Print Assumptions C06_like_endswith_const.
Theorem C06_like_contains_param : forall x s, like_of (like_param_contains x) s = true <-> is_infix x s.
Proof. exact like_param_contains_ok. Qed.
Print Assumptions C06_like_contains_param.
Theorem C06_like_startswith_param : forall x s, like_of (like_param_startswith x) s = true <-> is_prefix x s.
Proof. exact like_param_startswith_ok. Qed.
Print Assumptions C06_like_startswith_param.
Theorem C06_like_endswith_param : forall x s, like_of (like_param_endswith x) s = true <-> is_suffix x s.
Proof. exact like_param_endswith_ok. Qed.
Print Assumptions C06_like_endswith_param.

(* PostgreSQL / MySQL (documentation): LIKE without an ESCAPE clause uses the backslash as escape character.  The parameter
   branch always carries ESCAPE '!'; the constant branch holds on the complement of the known finding (no backslash) *)
Theorem C06_like_contains_const_bs_except_known : forall v s, mem_char 92 v = false ->
  (like_of_bs (like_const_contains v) s = true <-> is_infix v s).
Proof. exact like_const_contains_bs. Qed.
Print Assumptions C06_like_contains_const_bs_except_known.
Theorem C06_like_startswith_const_bs_except_known : forall v s, mem_char 92 v = false ->
  (like_of_bs (like_const_startswith v) s = true <-> is_prefix v s).
Proof. exact like_const_startswith_bs. Qed.
Print Assumptions C06_like_startswith_const_bs_except_known.
Theorem C06_like_endswith_const_bs_except_known : forall v s, mem_char 92 v = false ->
  (like_of_bs (like_const_endswith v) s = true <-> is_suffix v s).
Proof. exact like_const_endswith_bs. Qed.
Print Assumptions C06_like_endswith_const_bs_except_known.
Theorem C06_like_param_bs : forall x s,
  like_of_bs (like_param_contains x) s = like_of (like_param_contains x) s /\
  like_of_bs (like_param_startswith x) s = like_of (like_param_startswith x) s /\
  like_of_bs (like_param_endswith x) s = like_of (like_param_endswith x) s.
Proof. exact like_param_bs. Qed.
Print Assumptions C06_like_param_bs.

(* (5) parameters: for every style, every occurrence list (repeated keys included) and every environment, the driver binds
   to each placeholder of the text, in text order, the value of that placeholder's own paramkey *)
Theorem C06_params : forall (V : Type) (env : key -> V) st keys,
  bind_all (adapter st keys env) (placeholders st keys) = map (fun k => Some (env k)) keys.
Proof. exact params_bound. Qed.
Print Assumptions C06_params.

Theorem C06_params_counts : forall (V : Type) (env : key -> V) st keys,
  match adapter st keys env with
  | ATuple vs => length vs = length (placeholders st keys)
  | ADict kvs => forall p, In p (placeholders st keys) -> exists id, (p = PNam id \/ p = PPy id) /\ In id (map fst kvs)
  | ANone => False
  end.
Proof. exact params_counts. Qed.
Print Assumptions C06_params_counts.

(* (6) MySQL (documented default lexical rules, not executed): on the complement of the known finding *)
Theorem C06_literal_mysql_except_known : forall st s, mem_char 92 s = false ->
  match server_text st (mysql_value_str st s) with Some t => lex_mysql t | None => None end = Some s.
Proof. exact literal_mysql_no_backslash. Qed.
Print Assumptions C06_literal_mysql_except_known.

(* bytes: X'..' literal, all byte strings; MOD's operator text reaches the server as " % " under every style *)
Theorem C06_bytes : forall st bs, Forall (fun b => 0 <= b < 256) bs -> lex_blob (value_bytes st bs) = Some bs.
Proof. exact bytes_roundtrip. Qed.
Print Assumptions C06_bytes.

Theorem C06_mod_symbol : forall st, server_text st (mod_symbol st) = Some [32; 37; 32].
Proof. exact mod_symbol_server. Qed.
Print Assumptions C06_mod_symbol.

(* ---------------------------------------------------------------------------------------------------------------
   literals other than str / bytes.  value_<kind>, sqlite_value_<kind>, mysql_value_<kind>, pg_value_<kind> are Value.__str__ and
   its three subclasses translated per kind of value (Gen/C06Lit.v); via_server = after the driver's %-step for format /
   pyformat; the readers (Model/C06Lit.v) are the literal grammars of the dialects; dates / timestamps / intervals are
   parsed with the C07 builder's models (strptime_ymd, timestamp2datetime, str2timedelta). All paramstyles. *)
Theorem C06_lit_none : forall st, via_server st (value_none st) (fun t => Some (lex_null t)) = Some true.
Proof. exact lit_none. Qed.
Print Assumptions C06_lit_none.
Theorem C06_lit_bool : forall st b, via_server st (value_bool st b) lex_bool01 = Some b.
Proof. exact lit_bool. Qed.
Print Assumptions C06_lit_bool.
Theorem C06_lit_bool_pg : forall st b, via_server st (pg_value_bool st b) lex_bool_pg = Some b.
Proof. exact lit_bool_pg. Qed.
Print Assumptions C06_lit_bool_pg.
(* every integer (unbounded) *)
Theorem C06_lit_int : forall st z, via_server st (value_int st z) lex_integer = Some z.
Proof. exact lit_int. Qed.
Print Assumptions C06_lit_int.
(* integer-valued floats (repr = digits and .0; exact for |z| < 10^16): read as the decimal z*10 * 10^-1 *)
Theorem C06_lit_float_integer_valued : forall st z, via_server st (value_floatint st z) lex_decimal = Some (z * 10, -1).
Proof. exact lit_floatint. Qed.
Print Assumptions C06_lit_float_integer_valued.
(* Decimal with exponent <= 0 printed in plain notation (Python switches to E-notation beyond): coefficient and exponent read back *)
Theorem C06_lit_decimal_plain : forall st c e, e <= 0 -> -6 < e + Z.of_nat (length (print_nat (Z.abs c))) ->
  via_server st (value_decimal st (c, e)) lex_decimal = Some (c, e).
Proof. exact lit_decimal_plain. Qed.
Print Assumptions C06_lit_decimal_plain.
(* DATE '..' and TIMESTAMP '..' (generic, PostgreSQL, MySQL, Oracle) *)
Theorem C06_lit_date : forall st d, valid_date d -> via_server st (value_date st d) lex_date_lit = Some d.
Proof. exact lit_date. Qed.
Print Assumptions C06_lit_date.
Theorem C06_lit_timestamp : forall st d, valid_datetime d -> via_server st (value_datetime st d) lex_timestamp_lit = Some d.
Proof. exact lit_timestamp. Qed.
Print Assumptions C06_lit_timestamp.
(* INTERVAL '..' HOUR TO SECOND for every normalised timedelta (unbounded days, negative included); MySQL's two units *)
Theorem C06_lit_interval : forall st t, td_norm t ->
  via_server st (value_timedelta st t) (lex_interval_lit unit_hour_to_second) = Some t.
Proof. exact lit_interval. Qed.
Print Assumptions C06_lit_interval.
Theorem C06_lit_interval_mysql : forall st t, td_norm t ->
  via_server st (mysql_value_timedelta st t)
    (lex_interval_lit (if td_us t =? 0 then unit_hour_second else unit_hour_microsecond)) = Some t.
Proof. exact lit_interval_mysql. Qed.
Print Assumptions C06_lit_interval_mysql.
(* SQLite: plain quoted texts, read by Pony's own SQLite converters; a whole-day timedelta is the float of days *)
Theorem C06_lit_sqlite_date : forall st d, valid_date d -> via_server st (sqlite_value_date st d) lex_sqlite_date = Some d.
Proof. exact lit_sqlite_date. Qed.
Print Assumptions C06_lit_sqlite_date.
Theorem C06_lit_sqlite_datetime : forall st d, valid_datetime d ->
  via_server st (sqlite_value_datetime st d) lex_sqlite_datetime = Some d.
Proof. exact lit_sqlite_datetime. Qed.
Print Assumptions C06_lit_sqlite_datetime.
Theorem C06_lit_sqlite_timedelta_whole_days : forall st days,
  via_server st (sqlite_value_timedelta_days st days) lex_decimal = Some (days * 10, -1).
Proof. exact lit_sqlite_timedelta_days. Qed.
Print Assumptions C06_lit_sqlite_timedelta_whole_days.
(* where a subclass does not override a kind it renders exactly what Value renders *)
Theorem C06_lit_classes_same : forall st,
  (sqlite_value_none st = value_none st /\ mysql_value_none st = value_none st /\ pg_value_none st = value_none st)
  /\ (forall b, sqlite_value_bool st b = value_bool st b /\ mysql_value_bool st b = value_bool st b)
  /\ (forall z, sqlite_value_int st z = value_int st z /\ mysql_value_int st z = value_int st z /\ pg_value_int st z = value_int st z)
  /\ (forall z, sqlite_value_floatint st z = value_floatint st z /\ mysql_value_floatint st z = value_floatint st z /\ pg_value_floatint st z = value_floatint st z)
  /\ (forall d, sqlite_value_decimal st d = value_decimal st d /\ mysql_value_decimal st d = value_decimal st d /\ pg_value_decimal st d = value_decimal st d)
  /\ (forall d, mysql_value_datetime st d = value_datetime st d /\ pg_value_datetime st d = value_datetime st d)
  /\ (forall d, mysql_value_date st d = value_date st d /\ pg_value_date st d = value_date st d)
  /\ (forall t, pg_value_timedelta st t = value_timedelta st t).
Proof. exact lit_classes_same. Qed.
Print Assumptions C06_lit_classes_same.

(* ---------------------------------------------------------------------------------------------------------------
   "No value or entity/column name can change the structure of the generated statement", with a tokeniser (Model/C06Tok.v:
   string literal, quoted identifier, number, word, punctuation).  A statement is keyword text / slot / keyword text / ... where a
   slot is a quoted name (quote_name), a string literal (quote_str), an integer literal or a placeholder (Param.__str__).
   (1) the token classes of a well-formed statement are those of its skeleton; (2) statements with the same skeleton have the
   same token-class sequence whatever names and values are plugged in; (3) for the four skeletons SQLBuilder produces for
   INSERT / UPDATE / DELETE / SELECT-by-key.  All paramstyles, both identifier quote characters.  The sign of an inline integer
   is part of the skeleton (-5 is two tokens). *)
Theorem C06_tokens_of_statement : forall st q s, q = 34 \/ q = 96 -> stmt_ok s = true ->
  tokenize (stmt_text st q s) = stmt_classes st s.
Proof. exact tokenize_stmt. Qed.
Print Assumptions C06_tokens_of_statement.

Theorem C06_no_structure : forall st q s1 s2, q = 34 \/ q = 96 -> stmt_ok s1 = true -> stmt_ok s2 = true ->
  stmt_shape s1 = stmt_shape s2 -> tokenize (stmt_text st q s1) = tokenize (stmt_text st q s2).
Proof. exact no_structure. Qed.
Print Assumptions C06_no_structure.

Theorem C06_no_structure_insert : forall st q t1 c1 v1 t2 c2 v2, q = 34 \/ q = 96 ->
  length c1 = length c2 -> same_values v1 v2 -> ids_ok v1 = true -> ids_ok v2 = true ->
  tokenize (stmt_text st q (insert_stmt t1 c1 v1)) = tokenize (stmt_text st q (insert_stmt t2 c2 v2)).
Proof. exact insert_no_structure. Qed.
Print Assumptions C06_no_structure_insert.

Theorem C06_no_structure_update : forall st q t1 s1 k1 t2 s2 k2, q = 34 \/ q = 96 ->
  same_values (map snd s1) (map snd s2) -> same_values (map snd k1) (map snd k2) ->
  ids_ok (map snd s1) = true -> ids_ok (map snd k1) = true -> ids_ok (map snd s2) = true -> ids_ok (map snd k2) = true ->
  tokenize (stmt_text st q (update_stmt t1 s1 k1)) = tokenize (stmt_text st q (update_stmt t2 s2 k2)).
Proof. exact update_no_structure. Qed.
Print Assumptions C06_no_structure_update.

Theorem C06_no_structure_delete : forall st q t1 k1 t2 k2, q = 34 \/ q = 96 ->
  same_values (map snd k1) (map snd k2) -> ids_ok (map snd k1) = true -> ids_ok (map snd k2) = true ->
  tokenize (stmt_text st q (delete_stmt t1 k1)) = tokenize (stmt_text st q (delete_stmt t2 k2)).
Proof. exact delete_no_structure. Qed.
Print Assumptions C06_no_structure_delete.

Theorem C06_no_structure_select : forall st q c1 t1 k1 c2 t2 k2, q = 34 \/ q = 96 -> c1 <> [] ->
  length c1 = length c2 -> same_values (map snd k1) (map snd k2) -> ids_ok (map snd k1) = true -> ids_ok (map snd k2) = true ->
  tokenize (stmt_text st q (select_stmt c1 t1 k1)) = tokenize (stmt_text st q (select_stmt c2 t2 k2)).
Proof. exact select_no_structure. Qed.
Print Assumptions C06_no_structure_select.

(* re-execution: a string index / slice bound (and a getattr name) taken from a Python variable is rendered inline as a
   literal.  For EVERY history of runs of the same query code object with changing values, the literal in the statement of
   each run is the one a fresh translation renders for the value supplied for THAT run -- for an integer bound: that integer.
   (getitem_miss / getattr_miss are the cache-miss paths translated from source; run models Query._get_translator.) *)
Theorem C06_rerun_getitem : forall is_start h,
  run (getitem_miss is_start) tempty h = map (fun v => fst (getitem_miss is_start v)) h
  /\ forall x, fst (getitem_miss is_start (Some x)) = x.
Proof. exact rerun_getitem. Qed.
Print Assumptions C06_rerun_getitem.

Theorem C06_rerun_getattr : forall (h : list Z), run getattr_as_miss tempty (map Some h) = h.
Proof. exact rerun_getattr. Qed.
Print Assumptions C06_rerun_getattr.

(* non-vacuity *)
Example C06_nonvacuous :
  server_lex Pyformat (quote_str Pyformat [97; 39; 37; 92; 39; 39]) = Some [97; 39; 37; 92; 39; 39]
  /\ like_of (like_const_contains [53; 48; 37; 95; 33]) [120; 53; 48; 37; 95; 33; 121] = true
  /\ like_of (like_const_contains [53; 48; 37]) [120; 53; 48; 48; 121] = false
  /\ bind_all (adapter Numeric [7; 8; 8; 7; 9] (fun k => k * 10)) (placeholders Numeric [7; 8; 8; 7; 9])
     = [Some 70; Some 80; Some 80; Some 70; Some 90]
  /\ placeholders Named [7; 8; 8; 7; 9] = [PNam 1; PNam 2; PNam 2; PNam 1; PNam 5].
Proof. vm_compute. repeat split; reflexivity. Qed.
