(* C06 - Values reach the database unchanged: parameters, literals and identifiers.
   Property theorems only: each is closed by `exact <lemma>`; Print Assumptions must report a closed term.
   quote_str, *_value_str, value_bytes, quote_name(_seq), param_str, mod_symbol, like_* are re-translated from /repo on
   every run (Gen/C06Quote.v); lex_std / lex_ident / like_match / lex_blob are the receiving side (Model/C06Lex.v). *)
Require Import PonyV.Base.PyBase PonyV.Model.C06Str PonyV.Model.C06Lex PonyV.Model.C06Params PonyV.Gen.C06Quote
               PonyV.Model.C06Stmt PonyV.Proofs.C06StrLemmas PonyV.Proofs.C06Proofs
               PonyV.Gen.C06Pin PonyV.Model.C06Pin PonyV.Proofs.C06PinProofs.

(* (1) a standard-SQL lexer reads back exactly s from the literal Pony writes, nothing is left after the closing quote
   (qmark / numeric / named: the statement text goes to the server as is) *)
Theorem C06_literal_std : forall st s, style_in st [Format; Pyformat] = false -> lex_std (quote_str st s) = Some s.
Proof. exact literal_std. Qed.
Print Assumptions C06_literal_std.

(* (2) format / pyformat: after the driver's %-formatting step (%% -> %) the same holds, and the step succeeds *)
Theorem C06_literal_fmt : forall st s, style_in st [Format; Pyformat] = true ->
  match fmt_subst (quote_str st s) with Some t => lex_std t | None => None end = Some s.
Proof. exact literal_fmt. Qed.
Print Assumptions C06_literal_fmt.

(* (1)+(2) for all five styles at once *)
Theorem C06_literal_all_styles : forall st s, server_lex st (quote_str st s) = Some s.
Proof. exact literal_all_styles. Qed.
Print Assumptions C06_literal_all_styles.

(* no value changes the structure of the statement: whatever follows the literal (anything but another quote character)
   is where the lexer continues; for format styles the %-step creates no argument slot inside the literal *)
Theorem C06_literal_in_context : forall st s post, style_in st [Format; Pyformat] = false -> (forall r, post <> 39 :: r) ->
  lex_quoted 39 (quote_str st s ++ post) = Some (s, post).
Proof. exact literal_in_context. Qed.
Print Assumptions C06_literal_in_context.

Theorem C06_literal_fmt_in_context : forall st s post, style_in st [Format; Pyformat] = true ->
  fmt_scan (quote_str st s ++ post) = opt_app (map FChar (39 :: replace_all 39 [39; 39] s ++ [39])) (fmt_scan post).
Proof. exact literal_fmt_in_context. Qed.
Print Assumptions C06_literal_fmt_in_context.

(* the provider classes (SQLiteValue, MySQLValue, PGValue) render a str through the same quote_str *)
Theorem C06_value_classes : forall st s,
  value_str st s = quote_str st s /\ sqlite_value_str st s = quote_str st s /\
  mysql_value_str st s = quote_str st s /\ pg_value_str st s = quote_str st s.
Proof. exact value_str_paths. Qed.
Print Assumptions C06_value_classes.

(* (3) identifiers: every name, including names containing the quote character, reads back unchanged; in context; dotted *)
Theorem C06_ident : forall q n, lex_ident q (quote_name q n) = Some n.
Proof. exact ident_roundtrip. Qed.
Print Assumptions C06_ident.

Theorem C06_ident_in_context : forall q n post, (forall r, post <> q :: r) ->
  lex_quoted q (quote_name q n ++ post) = Some (n, post).
Proof. exact ident_in_context. Qed.
Print Assumptions C06_ident_in_context.

Theorem C06_ident_dotted : forall q names, q <> 46 -> names <> [] ->
  lex_dotted q (length names) (quote_name_seq q names) = Some names.
Proof. exact ident_seq_roundtrip. Qed.
Print Assumptions C06_ident_dotted.

(* identifiers under format / pyformat (driver's %-step, documentation model): on the complement of the known finding *)
Theorem C06_ident_fmt_except_known : forall q n, q <> 37 -> mem_char 37 n = false ->
  match fmt_subst (quote_name q n) with Some t => lex_ident q t | None => None end = Some n.
Proof. exact ident_fmt_no_percent. Qed.
Print Assumptions C06_ident_fmt_except_known.

(* (4) LIKE: for every value v and subject s the condition Pony builds is true exactly when v is an infix / prefix /
   suffix of s -- constant branch (escaping done in Python, ESCAPE only when needed) and parameter branch
   (escaping done by nested SQL replace()), escape character as read from the source *)
Theorem C06_like_contains_const : forall v s, like_of (like_const_contains v) s = true <-> is_infix v s.
Proof. exact like_const_contains_ok. Qed.
Print Assumptions C06_like_contains_const.
Theorem C06_like_startswith_const : forall v s, like_of (like_const_startswith v) s = true <-> is_prefix v s.
Proof. exact like_const_startswith_ok. Qed.
Print Assumptions C06_like_startswith_const.
Theorem C06_like_endswith_const : forall v s, like_of (like_const_endswith v) s = true <-> is_suffix v s.
Proof. exact like_const_endswith_ok. Qed.
Print Assumptions C06_like_endswith_const.
Theorem C06_like_contains_param : forall x s, like_of (like_param_contains x) s = true <-> is_infix x s.
Proof. exact like_param_contains_ok. Qed.
Print Assumptions C06_like_contains_param.
Theorem C06_like_startswith_param : forall x s, like_of (like_param_startswith x) s = true <-> is_prefix x s.
Proof. exact like_param_startswith_ok. Qed.
Print Assumptions C06_like_startswith_param.
Theorem C06_like_endswith_param : forall x s, like_of (like_param_endswith x) s = true <-> is_suffix x s.
Proof. exact like_param_endswith_ok. Qed.
Print Assumptions C06_like_endswith_param.

(* PostgreSQL / MySQL (documentation): LIKE without an ESCAPE clause uses the backslash as escape character.  The parameter
   branch always carries ESCAPE '!'; the constant branch holds on the complement of the known finding (no backslash) *)
Theorem C06_like_contains_const_bs_except_known : forall v s, mem_char 92 v = false ->
  (like_of_bs (like_const_contains v) s = true <-> is_infix v s).
Proof. exact like_const_contains_bs. Qed.
Print Assumptions C06_like_contains_const_bs_except_known.
Theorem C06_like_startswith_const_bs_except_known : forall v s, mem_char 92 v = false ->
  (like_of_bs (like_const_startswith v) s = true <-> is_prefix v s).
Proof. exact like_const_startswith_bs. Qed.
Print Assumptions C06_like_startswith_const_bs_except_known.
Theorem C06_like_endswith_const_bs_except_known : forall v s, mem_char 92 v = false ->
  (like_of_bs (like_const_endswith v) s = true <-> is_suffix v s).
Proof. exact like_const_endswith_bs. Qed.
Print Assumptions C06_like_endswith_const_bs_except_known.
Theorem C06_like_param_bs : forall x s,
  like_of_bs (like_param_contains x) s = like_of (like_param_contains x) s /\
  like_of_bs (like_param_startswith x) s = like_of (like_param_startswith x) s /\
  like_of_bs (like_param_endswith x) s = like_of (like_param_endswith x) s.
Proof. exact like_param_bs. Qed.
Print Assumptions C06_like_param_bs.

(* (5) parameters: for every style, every occurrence list (repeated keys included) and every environment, the driver binds
   to each placeholder of the text, in text order, the value of that placeholder's own paramkey *)
Theorem C06_params : forall (V : Type) (env : key -> V) st keys,
  bind_all (adapter st keys env) (placeholders st keys) = map (fun k => Some (env k)) keys.
Proof. exact params_bound. Qed.
Print Assumptions C06_params.

Theorem C06_params_counts : forall (V : Type) (env : key -> V) st keys,
  match adapter st keys env with
  | ATuple vs => length vs = length (placeholders st keys)
  | ADict kvs => forall p, In p (placeholders st keys) -> exists id, (p = PNam id \/ p = PPy id) /\ In id (map fst kvs)
  | ANone => False
  end.
Proof. exact params_counts. Qed.
Print Assumptions C06_params_counts.

(* (6) MySQL (documented default lexical rules, not executed): on the complement of the known finding *)
Theorem C06_literal_mysql_except_known : forall st s, mem_char 92 s = false ->
  match server_text st (mysql_value_str st s) with Some t => lex_mysql t | None => None end = Some s.
Proof. exact literal_mysql_no_backslash. Qed.
Print Assumptions C06_literal_mysql_except_known.

(* bytes: X'..' literal, all byte strings; MOD's operator text reaches the server as " % " under every style *)
Theorem C06_bytes : forall st bs, Forall (fun b => 0 <= b < 256) bs -> lex_blob (value_bytes st bs) = Some bs.
Proof. exact bytes_roundtrip. Qed.
Print Assumptions C06_bytes.

Theorem C06_mod_symbol : forall st, server_text st (mod_symbol st) = Some [32; 37; 32].
Proof. exact mod_symbol_server. Qed.
Print Assumptions C06_mod_symbol.

(* re-execution: a string index / slice bound (and a getattr name) taken from a Python variable is rendered inline as a
   literal.  For EVERY history of runs of the same query code object with changing values, the literal in the statement of
   each run is the one a fresh translation renders for the value supplied for THAT run -- for an integer bound: that integer.
   (getitem_miss / getattr_miss are the cache-miss paths translated from source; run models Query._get_translator.) *)
Theorem C06_rerun_getitem : forall is_start h,
  run (getitem_miss is_start) tempty h = map (fun v => fst (getitem_miss is_start v)) h
  /\ forall x, fst (getitem_miss is_start (Some x)) = x.
Proof. exact rerun_getitem. Qed.
Print Assumptions C06_rerun_getitem.

Theorem C06_rerun_getattr : forall (h : list Z), run getattr_as_miss tempty (map Some h) = h.
Proof. exact rerun_getattr. Qed.
Print Assumptions C06_rerun_getattr.

(* non-vacuity *)
Example C06_nonvacuous :
  server_lex Pyformat (quote_str Pyformat [97; 39; 37; 92; 39; 39]) = Some [97; 39; 37; 92; 39; 39]
  /\ like_of (like_const_contains [53; 48; 37; 95; 33]) [120; 53; 48; 37; 95; 33; 121] = true
  /\ like_of (like_const_contains [53; 48; 37]) [120; 53; 48; 48; 121] = false
  /\ bind_all (adapter Numeric [7; 8; 8; 7; 9] (fun k => k * 10)) (placeholders Numeric [7; 8; 8; 7; 9])
     = [Some 70; Some 80; Some 80; Some 70; Some 90]
  /\ placeholders Named [7; 8; 8; 7; 9] = [PNam 1; PNam 2; PNam 2; PNam 1; PNam 5].
Proof. vm_compute. repeat split; reflexivity. Qed.
