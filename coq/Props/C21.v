(* C21 - Repeated reads in a session return the same value or fail loudly.
   Model: Model/C21Reload.v.  Property theorems only. *)
From Coq Require Import ZArith List Bool.
Import ListNotations.
Require Import PonyV.Model.C21Reload PonyV.Proofs.C21ReloadProofs.

(* Scalar attributes.  For every history of reads, own writes and re-fetched columns carrying ARBITRARY external values:
   every value read for a non-volatile attribute equals the previous value the program read or wrote for it
   (or the run has ended in UnrepeatableReadError before that read: a failed run records nothing more). *)
Theorem C21_scalar : forall vol evs, trace_ok vol (trace (run vol init evs)).
Proof. exact scalar_ok. Qed.
Print Assumptions C21_scalar.

(* Reading session without own writes: all values observed for a non-volatile attribute are equal. *)
Theorem C21_scalar_readonly : forall vol evs a v1 v2,
  forallb (fun e => negb (is_write e)) evs = true -> vol a = false ->
  In (TObs a v1) (trace (run vol init evs)) -> In (TObs a v2) (trace (run vol init evs)) -> v1 = v2.
Proof. exact scalar_readonly. Qed.
Print Assumptions C21_scalar_readonly.

(* "fails loudly": a column that the program has read and that comes back different ends the run in the error ... *)
Theorem C21_detects : forall vol s a v,
  failed s = false -> vol a = false -> rbit (cells s a) = true -> cdb (cells s a) <> Some v ->
  failed (step vol s (Load a v)) = true.
Proof. exact load_detects. Qed.
Print Assumptions C21_detects.

(* ... and a column that comes back unchanged never does. *)
Theorem C21_quiet : forall vol s a v,
  failed s = false -> cdb (cells s a) = Some v ->
  failed (step vol s (Load a v)) = false /\ (forall b, cells (step vol s (Load a v)) b = cells s b)
  /\ trace (step vol s (Load a v)) = trace s.
Proof. exact load_quiet. Qed.
Print Assumptions C21_quiet.

(* Collections (one-to-many and many-to-many).  For every history of observations (len / iteration), re-fetched member
   rows and loads of the other side, with arbitrary database content: all observations of the collection are equal
   (a run that fails records nothing more).  `crun` is the code as it is: Set.db_reverse_add rejects a phantom that
   appears, Set.db_reverse_remove one that disappears (repo commit a9972eb), Set.load the many-to-many phantoms. *)
Theorem C21_collection : forall m2m evs, all_same (cobs (crun m2m cinit evs)).
Proof. exact collection_fixed. Qed.
Print Assumptions C21_collection.

(* Non-vacuity: a read, an external change of that column arriving with a re-fetch: the run fails; without the read it
   does not and the new value is seen. *)
Example C21_nonvacuous_fail : outcome [false] [Load 0 (Some 1); Read 0 None; Load 0 (Some 2); Read 0 None] = (true, [TObs 0 (Some 1)]).
Proof. vm_compute. reflexivity. Qed.
Example C21_nonvacuous_ok : outcome [false] [Load 0 (Some 1); Load 0 (Some 2); Read 0 None; Read 0 None] = (false, [TObs 0 (Some 2); TObs 0 (Some 2)]).
Proof. vm_compute. reflexivity. Qed.
Example C21_nonvacuous_coll : coutcome false [CObsCopy [1; 2]%nat; CItemReload 2 true; CObsLen [7]%nat; CItemReload 1 false] = (true, [[1; 2]%nat; [1; 2]%nat]).
Proof. vm_compute. reflexivity. Qed.
(* the history of the repaired defect: len() = {1,2}, member 1 moves away and is re-fetched: the run now fails loudly *)
Example C21_nonvacuous_disappear : coutcome false [CObsLen [1; 2]%nat; CItemReload 1 false; CObsLen [2]%nat] = (true, [[1; 2]%nat]).
Proof. vm_compute. reflexivity. Qed.
