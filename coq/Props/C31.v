(* C31 - Serialised and pickled objects reflect current state and round-trip: the composite-key encoding.
   Property theorems only.  reduce_composite_pk / encode_part are re-translated from /repo's Bag._reduce_composite_pk on every run
   (Gen/C31Reduce.v); key parts are modelled by their str() images, lists of arbitrary code points (',', '*', '\' included). *)
Require Import PonyV.Base.PyBase PonyV.Model.C31Codec PonyV.Gen.C31Reduce PonyV.Proofs.C31Codec PonyV.Model.C31Bag PonyV.Proofs.C31Bag PonyV.Model.C31Flush PonyV.Proofs.C31Flush PonyV.Model.C31Pickle PonyV.Proofs.C31Pickle PonyV.Model.C31ToJson PonyV.Proofs.C31ToJson.

(* an explicit decoder reads every encoded key back *)
Theorem C31_pk_decode : forall pk : list (list Z), pk <> [] -> decode (reduce_composite_pk pk) = pk.
Proof. exact decode_reduce. Qed.
Print Assumptions C31_pk_decode.

(* distinct composite keys are encoded distinctly *)
Theorem C31_pk_injective : forall pk1 pk2 : list (list Z), pk1 <> [] -> pk2 <> [] ->
  reduce_composite_pk pk1 = reduce_composite_pk pk2 -> pk1 = pk2.
Proof. exact reduce_injective. Qed.
Print Assumptions C31_pk_injective.

(* so the dictionary Bag.to_dict builds has one entry per object *)
Theorem C31_keys_nodup : forall keys : list (list (list Z)),
  (forall k, In k keys -> k <> []) -> NoDup keys -> NoDup (map reduce_composite_pk keys).
Proof. exact reduce_keys_nodup. Qed.
Print Assumptions C31_keys_nodup.

(* Bag.to_dict (model of its traversal, Model/C31Bag.v): every object given is reported with all its attributes: _process_object
   leaves given objects alone when it meets them as related objects (bag_skips_given_related = true, scanned from /repo) *)
Theorem C31_bag_given_full : forall (rel : nat -> list nat) (order : list nat) o, In o order -> bag_to_dict rel order o = Some Full.
Proof. exact bag_given_full_now. Qed.
Print Assumptions C31_bag_given_full.

(* every object has its key when the result is keyed (Bag.to_dict flushes first): different objects, different result keys *)
Theorem C31_bag_keys : forall (K : Type) (pks : list K), NoDup pks -> NoDup (bag_keys pks) /\ ~ In None (bag_keys pks).
Proof. exact @bag_keys_nodup. Qed.
Print Assumptions C31_bag_keys.

(* Entity.to_dict(with_collections=True) reports the key of every member of a collection -- also of members created in this
   session that are not saved yet (automatic keys): to_dict saves the whole session first (to_dict_flushes_session, scanned from /repo) *)
Theorem C31_to_dict_reports_pending_keys : forall (K : Type) (assign : nat -> K) (pk : nat -> option K) (scope : nat -> bool) (members : list nat),
  reported_members assign pk scope members = map (fun o => Some (final_key assign pk o)) members /\
  ~ In None (reported_members assign pk scope members).
Proof. exact @reported_members_both. Qed.
Print Assumptions C31_to_dict_reports_pending_keys.

(* the same for the dictionary keys of Bag.to_dict (bag_to_dict_flushes_session) *)
Theorem C31_bag_result_keys : forall (K : Type) (assign : nat -> K) (pk : nat -> option K) (objs : list nat),
  bag_result_keys assign pk objs = map (fun o => Some (final_key assign pk o)) objs /\ ~ In None (bag_result_keys assign pk objs).
Proof. exact @bag_result_keys_final. Qed.
Print Assumptions C31_bag_result_keys.

(* Pickling (model of Entity.__reduce__ / unpickle_entity / _db_set_(unpickling=True), QueryResult state, SetInstance.__reduce__):
   only loaded, unmodified objects can be pickled; unpickled in a session that has not loaded the object, every attribute has the value
   it had at pickling time; in general the unpickling session's own loaded value wins; if both sessions saw the same database values
   the unpickled object has equal attribute values; query results keep their items in order; a collection wrapper gets its items back *)
Theorem C31_pickle_only_loaded : forall st v p, pickle_entity st v = Ok p -> st = Loaded /\ p = v.
Proof. exact pickle_entity_ok. Qed.
Print Assumptions C31_pickle_only_loaded.

Theorem C31_pickle_roundtrip_fresh : forall st v p, pickle_entity st v = Ok p -> forall a, unpickle_entity Loaded no_vals p a = v a.
Proof. exact roundtrip_fresh. Qed.
Print Assumptions C31_pickle_roundtrip_fresh.

Theorem C31_pickle_roundtrip_general : forall here_st here p a, here_st <> Deleted ->
  unpickle_entity here_st here p a = match here a with Some w => Some w | None => p a end.
Proof. exact roundtrip_general. Qed.
Print Assumptions C31_pickle_roundtrip_general.

Theorem C31_pickle_equal_values : forall (dbv : nat -> Z) st v p here_st here,
  pickle_entity st v = Ok p -> here_st <> Deleted ->
  (forall a x, v a = Some x -> x = dbv a) -> (forall a x, here a = Some x -> x = dbv a) ->
  forall a x, unpickle_entity here_st here p a = Some x -> x = dbv a.
Proof. exact roundtrip_equal_values. Qed.
Print Assumptions C31_pickle_equal_values.

Theorem C31_pickle_query_result : forall (I J : Type) (u : I -> J) fetched fetch,
  unpickle_query_result u (pickle_query_result fetched fetch) = map u (match fetched with Some l => l | None => fetch end) /\
  length (unpickle_query_result u (pickle_query_result fetched fetch)) = length (pickle_query_result fetched fetch).
Proof. exact @query_result_roundtrip. Qed.
Print Assumptions C31_pickle_query_result.

Theorem C31_pickle_set : forall k items ref_loaded here,
  unpickle_set k [] items ref_loaded = items /\ unpickle_set k here here ref_loaded = here.
Proof. exact set_roundtrip_both. Qed.
Print Assumptions C31_pickle_set.

(* Database.to_json flushes first (db_to_json_flushes_session, scanned from /repo): every "pk" of the data section and every key of
   the objects section is the object's final key, never null -- pending objects with automatic keys included *)
Theorem C31_db_to_json_keys : forall (K : Type) (assign : nat -> K) (pk : nat -> option K) (objs : list nat),
  db_to_json_keys assign pk objs = map (fun o => Some (final_key assign pk o)) objs /\ ~ In None (db_to_json_keys assign pk objs).
Proof. exact @db_to_json_keys_final. Qed.
Print Assumptions C31_db_to_json_keys.

(* Database.to_json (model of its worklist, Model/C31ToJson.v): the "objects" section has an entry for every instance of the "data"
   section, and -- the worklist having run empty -- for every instance referred to through an included relationship attribute, so
   every reference can be resolved; the sections are data, objects and, unless with_schema=False, schema_hash plus (when the caller's
   hash does not match) schema *)
Theorem C31_to_json_roots : forall fuel succ roots, incl roots (snd (to_json_objects fuel succ roots)).
Proof. exact to_json_roots. Qed.
Print Assumptions C31_to_json_roots.

Theorem C31_to_json_closed : forall fuel succ roots, fst (to_json_objects fuel succ roots) = [] ->
  forall o, In o (snd (to_json_objects fuel succ roots)) -> forall x, In x (succ o) -> In x (snd (to_json_objects fuel succ roots)).
Proof. exact to_json_closed. Qed.
Print Assumptions C31_to_json_closed.

Theorem C31_to_json_sections : forall with_schema hash_matches,
  In SData (to_json_sections with_schema hash_matches) /\ In SObjects (to_json_sections with_schema hash_matches) /\
  (In SSchemaHash (to_json_sections with_schema hash_matches) <-> with_schema = true) /\
  (In SSchema (to_json_sections with_schema hash_matches) <-> with_schema = true /\ hash_matches = false).
Proof. exact to_json_sections_spec. Qed.
Print Assumptions C31_to_json_sections.

(* the permission filter: whatever Database.to_json ships has passed can_view (it refuses otherwise) *)
Theorem C31_to_json_viewable : forall fuel succ roots viewable l, to_json_checked fuel succ roots viewable = Ok l ->
  (forall o, In o l -> viewable o = true) /\ incl roots l.
Proof. exact to_json_checked_viewable. Qed.
Print Assumptions C31_to_json_viewable.

Theorem C31_to_json_refuses : forall fuel succ roots viewable, (exists o, In o roots /\ viewable o = false) ->
  to_json_checked fuel succ roots viewable = Err 5%nat.
Proof. exact to_json_checked_refuses. Qed.
Print Assumptions C31_to_json_refuses.

(* non-vacuity: ('a*', ',c') and ('a', '*,c') -- equal after naive joining -- get different keys, and decode back *)
Example C31_nonvacuous :
  reduce_composite_pk [[97; 42]; [44; 99]] = [97; 42; 42; 44; 42; 44; 99] /\
  reduce_composite_pk [[97]; [42; 44; 99]] = [97; 44; 42; 42; 42; 44; 99] /\
  decode [97; 42; 42; 44; 42; 44; 99] = [[97; 42]; [44; 99]].
Proof. repeat split; vm_compute; reflexivity. Qed.
