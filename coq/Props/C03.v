(* C03 - Decompiling a generator or lambda preserves its meaning.
   Property theorems only: each is closed by `exact <lemma>`; Print Assumptions must report a closed term. *)
From Coq Require Import List Bool Arith.
Import ListNotations.
Require Import PonyV.Model.C03Bexp PonyV.Proofs.C03Checker PonyV.Model.C03Decomp PonyV.Model.C03Family PonyV.Model.C03Family3 PonyV.Proofs.C03Roundtrip PonyV.Proofs.C03RoundtripCnf PonyV.Proofs.C03RoundtripIf PonyV.Proofs.C03Roundtrip3 PonyV.Proofs.C03Roundtrip3Run PonyV.Proofs.C03Roundtrip3Dual PonyV.Proofs.C03Roundtrip3All PonyV.Proofs.C03CompileSound
               PonyV.Model.C03Cache PonyV.Proofs.C03CacheProofs PonyV.Gen.C03CacheKey.

(* The oracle the harness uses to judge every output of the real decompiler: if the truth-table checker accepts a pair
   of expressions (any number of atoms), they have the same VALUE under every assignment of their free names ... *)
Theorem C03_checker_sound : forall e e', equiv_check e e' = true -> forall rho, eval rho e = eval rho e'.
Proof. exact checker_sound. Qed.
Print Assumptions C03_checker_sound.

(* ... resp. the same TRUTH VALUE (what a generator's `if` observes) ... *)
Theorem C03_checker_truth_sound : forall e e', equiv_check_truth e e' = true -> forall rho, truthy (eval rho e) = truthy (eval rho e').
Proof. exact checker_truth_sound. Qed.
Print Assumptions C03_checker_truth_sound.

(* ... and a rejection is never a false alarm: it comes with an assignment on which the two expressions differ. *)
Theorem C03_checker_complete : forall e e', equiv_check e e' = false -> exists rho, eval rho e <> eval rho e'.
Proof. exact checker_complete. Qed.
Print Assumptions C03_checker_complete.

Theorem C03_checker_truth_complete : forall e e', equiv_check_truth e e' = false -> exists rho, truthy (eval rho e) <> truthy (eval rho e').
Proof. exact checker_truth_complete. Qed.
Print Assumptions C03_checker_truth_complete.

(* ------------------------------------------------------------------------------------------------------------------
   The round trip on the model (Model/C03Decomp.v: CPython 3.12 code generation followed by Pony's Decompiler; the model
   is compared with the real bytecode, Decompiler.instructions, or_jumps, conditions_end and Decompiler.ast on every run).

   Full statement for the and/or/not class in filter position:

       C03_andor : forall e, andornot e ->
         exists e', decompile PFilter e = Some e' /\ forall rho, truthy (eval rho e') = truthy (eval rho e).

   It is FALSE: Findings/C03.v, C03_refuted_filter_wrong_And_Or
   (`a and ((b or c and d) and e or g)` comes back as `(a and (b or c and d) and e) or g`); the real decompiler behaves the
   same way (known finding filter:wrong:And+Or).  What is proved are the unbounded sub-families below, the largest being all
   expressions of nesting depth 3 (C03_andor_depth3 with `or` outermost, C03_andor_depth3_dual with `and` outermost).  analyze_jumps' "an or-jump strictly between" test
   is characterised in general (Proofs/C03Roundtrip3.v, or_jumps_classified: or_jumps is exactly any set S of jumps such
   that no S-jump to a farther target lies strictly between an S-jump and its target and every other forward jump has one),
   and it is RIGHT on the refuted input; the wrong tree there comes from process_target's limit `targets[pos]` naming a
   clause that an earlier merge has already swallowed.  A theorem for the complement of the refuted inputs needs an
   invariant over the whole stack / targets table for arbitrary nesting - not attempted.
   ------------------------------------------------------------------------------------------------------------------ *)

(* C03_andor_partial: every `or` of `and`s of literals - any number of alternatives, any widths, hence also a single `and`
   of n literals and a single `or` of n literals - written as the filter of a generator decompiles to exactly itself.
   A literal is  a | not a | a == b | a != b | not a == b | not a != b | a is None | a is not None  (names a, b). *)
Theorem C03_andor_partial : forall alts, wf_alts alts -> decompile PFilter (dnf alts) = Some (dnf alts).
Proof. exact roundtrip_dnf. Qed.
Print Assumptions C03_andor_partial.

Theorem C03_andor_partial_meaning : forall alts, wf_alts alts ->
  exists e', decompile PFilter (dnf alts) = Some e' /\ forall rho, eval rho e' = eval rho (dnf alts).
Proof. exact roundtrip_dnf_meaning. Qed.
Print Assumptions C03_andor_partial_meaning.

(* ... and the dual family: every `and` of `or`s of literals, any number of clauses, any widths *)
Theorem C03_andor_partial_cnf : forall cls, wf_alts cls -> decompile PFilter (cnf cls) = Some (cnf cls).
Proof. exact roundtrip_cnf. Qed.
Print Assumptions C03_andor_partial_cnf.

Theorem C03_andor_partial_cnf_meaning : forall cls, wf_alts cls ->
  exists e', decompile PFilter (cnf cls) = Some e' /\ forall rho, eval rho e' = eval rho (cnf cls).
Proof. exact roundtrip_cnf_meaning. Qed.
Print Assumptions C03_andor_partial_cnf_meaning.

Example C03_andor_partial_literals_nonvacuous :
  dnf [[LCmp false false 0 1; LIsN true 2]; [Lit true 3; LCmp true true 4 5]] =
    Or [And [Cmp false (Atom 0) (Atom 1); IsNone true (Atom 2)]; And [Not (Atom 3); Not (Cmp true (Atom 4) (Atom 5))]] /\
  decompile PFilter (dnf [[LCmp false false 0 1; LIsN true 2]; [Lit true 3; LCmp true true 4 5]]) =
    Some (dnf [[LCmp false false 0 1; LIsN true 2]; [Lit true 3; LCmp true true 4 5]]).
Proof. split; reflexivity. Qed.

Example C03_andor_partial_cnf_nonvacuous :
  cnf [[Lit false 0; Lit true 1]; [Lit false 2]; [Lit true 3; Lit false 4; Lit false 5]] =
    And [Or [Atom 0; Not (Atom 1)]; Atom 2; Or [Not (Atom 3); Atom 4; Atom 5]].
Proof. reflexivity. Qed.

(* C03_andor_depth3: nesting depth 3 with `or` outermost.  Every `or` of (at least two) alternatives, each alternative an
   `and` of conjuncts (or a single literal), each conjunct a literal or an `or`-clause of literals - any number of
   alternatives, conjuncts and literals - written as the filter of a generator decompiles to exactly itself.
   (All conjuncts literals: the DNF family above with >= 2 alternatives.)  The registered limit for the body may be stale
   here (first alternative ending in an `or`-clause); the proof shows that it is then harmless. *)
Theorem C03_andor_depth3 : forall alts, wf3 alts -> decompile PFilter (dnf3 alts) = Some (dnf3 alts).
Proof. exact roundtrip_dnf3. Qed.
Print Assumptions C03_andor_depth3.

Theorem C03_andor_depth3_meaning : forall alts, wf3 alts ->
  exists e', decompile PFilter (dnf3 alts) = Some e' /\ forall rho, eval rho e' = eval rho (dnf3 alts).
Proof. exact roundtrip_dnf3_meaning. Qed.
Print Assumptions C03_andor_depth3_meaning.

(* non-vacuity: `(a or not b) and c or d or e and (x == y or g is None or h) and (i or j)` is in the family *)
Example C03_andor_depth3_nonvacuous :
  wf3 [[[Lit false 0; Lit true 1]; [Lit false 2]]; [[Lit false 3]];
       [[Lit false 4]; [LCmp false false 5 6; LIsN false 7; Lit false 8]; [Lit false 9; Lit false 10]]] /\
  dnf3 [[[Lit false 0; Lit true 1]; [Lit false 2]]; [[Lit false 3]];
        [[Lit false 4]; [LCmp false false 5 6; LIsN false 7; Lit false 8]; [Lit false 9; Lit false 10]]] =
    Or [And [Or [Atom 0; Not (Atom 1)]; Atom 2]; Atom 3;
        And [Atom 4; Or [Cmp false (Atom 5) (Atom 6); IsNone false (Atom 7); Atom 8]; Or [Atom 9; Atom 10]]].
Proof.
  split; [|reflexivity]. split; [cbn; auto with arith|].
  repeat constructor; try discriminate; cbn; auto.
Qed.

(* C03_andor_depth3_dual: nesting depth 3 with `and` outermost.  Every `and` of (at least two) clauses, each clause an `or`
   of disjuncts (or a single literal), each disjunct a literal or an `and`-group of literals, decompiles to exactly itself.
   (All disjuncts literals: the CNF family above with >= 2 clauses.)  Every clause is compiled like a filter of its own whose
   "body" is the end of the clause; the identity registered for the loop top may be stale but is never used as a limit. *)
Theorem C03_andor_depth3_dual : forall cls, wf3 cls -> decompile PFilter (cnf3 cls) = Some (cnf3 cls).
Proof. exact roundtrip_cnf3. Qed.
Print Assumptions C03_andor_depth3_dual.

Theorem C03_andor_depth3_dual_meaning : forall cls, wf3 cls ->
  exists e', decompile PFilter (cnf3 cls) = Some e' /\ forall rho, eval rho e' = eval rho (cnf3 cls).
Proof. exact roundtrip_cnf3_meaning. Qed.
Print Assumptions C03_andor_depth3_dual_meaning.

(* non-vacuity: `(a and not b or c) and d and (e or x == y and g is None and h or i and j)` is in the family *)
Example C03_andor_depth3_dual_nonvacuous :
  cnf3 [[[Lit false 0; Lit true 1]; [Lit false 2]]; [[Lit false 3]];
        [[Lit false 4]; [LCmp false false 5 6; LIsN false 7; Lit false 8]; [Lit false 9; Lit false 10]]] =
    And [Or [And [Atom 0; Not (Atom 1)]; Atom 2]; Atom 3;
         Or [Atom 4; And [Cmp false (Atom 5) (Atom 6); IsNone false (Atom 7); Atom 8]; And [Atom 9; Atom 10]]].
Proof. reflexivity. Qed.

(* C03_andor_depth_le3: the two depth-3 theorems over a predicate on expressions.  `alt_depth o d e` (Model/C03Family3.v): e is
   a literal, or d > 0 and e is an `or` (o = true) / `and` (o = false) of at least two operands each of which is
   `alt_depth (negb o) (d - 1)`.  Every ALTERNATING and/or nesting of depth <= 3 over literals, of any widths, written as the
   filter of a generator decompiles to exactly itself.  (Not in the class: a group directly under a group of the same kind,
   `a and (b and c)`, which the decompiler flattens; depth >= 4, where some shapes come back re-associated and depth 5
   contains the refuted input.) *)
Theorem C03_andor_depth_le3 : forall o e, alt_depth o 3 e = true -> decompile PFilter e = Some e.
Proof. exact roundtrip_depth3. Qed.
Print Assumptions C03_andor_depth_le3.

Example C03_andor_depth_le3_nonvacuous :
  alt_depth true 3 (Or [And [Or [Atom 0; Not (Atom 1)]; Atom 2]; Atom 3;
                        And [Atom 4; Or [Cmp false (Atom 5) (Atom 6); IsNone false (Atom 7); Atom 8]; Or [Atom 9; Atom 10]]]) = true /\
  alt_depth false 3 (And [Or [And [Atom 0; Not (Atom 1)]; Atom 2]; Atom 3]) = true /\
  alt_depth false 3 (And [Atom 0; And [Atom 1; Atom 2]]) = false /\
  (* the refuted 6-operand input has depth 5 *)
  alt_depth false 4 (And [Atom 0; Or [And [Or [Atom 1; And [Atom 2; Atom 3]]; Atom 4]; Atom 5]]) = false /\
  alt_depth false 5 (And [Atom 0; Or [And [Or [Atom 1; And [Atom 2; Atom 3]]; Atom 4]; Atom 5]]) = true.
Proof. repeat split; reflexivity. Qed.

(* A family with a conditional expression, in ELEMENT position: (xa if t1 and ... and tn else xb for x in T), any n >= 1,
   comes back as exactly itself (partial + full process_target of JUMP_FORWARD, classification by jump sense after
   conditions_end).  Most other combinations of if-else with and/or/not are refuted (Findings/C03.v). *)
Theorem C03_ifexp_partial : forall ts xa xb, ts <> [] -> decompile PElt (if_and ts xa xb) = Some (if_and ts xa xb).
Proof. exact roundtrip_if_and. Qed.
Print Assumptions C03_ifexp_partial.

(* non-vacuity: `a and not b or c or not d and e and g` is in the family, and its stream has 12 instructions + 2 *)
Example C03_andor_partial_nonvacuous :
  wf_alts [[Lit false 0; Lit true 1]; [Lit false 2]; [Lit true 3; Lit false 4; Lit false 5]] /\
  dnf [[Lit false 0; Lit true 1]; [Lit false 2]; [Lit true 3; Lit false 4; Lit false 5]] =
    Or [And [Atom 0; Not (Atom 1)]; Atom 2; And [Not (Atom 3); Atom 4; Atom 5]] /\
  length (compile PFilter (dnf [[Lit false 0; Lit true 1]; [Lit false 2]; [Lit true 3; Lit false 4; Lit false 5]])) = 14.
Proof. split; [split; [discriminate | repeat constructor; discriminate] | split; reflexivity]. Qed.

(* ------------------------------------------------------------------------------------------------------------------
   Sanity of the code-generation model (the model of CPython, which is otherwise only compared with `dis`): executing the
   compiled stream gives the meaning of the source - the truth value decides between yielding and skipping the element
   at the three filter positions, the value is what is yielded / returned at the element and lambda positions - for EVERY
   expression of the fragment: names, constants, not, and, or, ==, !=, is (not) None and conditional expressions, of any
   nesting (`wfe`: only the empty and/or, which Python cannot write, is excluded).  The JUMP_FORWARDs of conditional
   expressions go through CPython's jump threading, which is proved to preserve the meaning of any stream (exec_thread). *)
Theorem C03_compile_sound : forall ps e rho, wfe e = true -> run_code rho (compile ps e) = meaning ps rho e.
Proof. exact compile_sound_full. Qed.
Print Assumptions C03_compile_sound.

Theorem C03_thread_sound : forall rho code f pc stk,
  exec f rho code pc stk <> OStuck -> exec f rho (thread code) pc stk = exec f rho code pc stk.
Proof. exact exec_thread. Qed.
Print Assumptions C03_thread_sound.

Example C03_compile_sound_nonvacuous :
  wfe (Or [And [Atom 0; Not (Cmp false (Atom 1) (IfExp (Atom 2) (And [Atom 3; Const VNone]) (Atom 4)))]; IsNone true (Atom 3)]) = true.
Proof. reflexivity. Qed.

(* ------------------------------------------------------------------------------------------------------------------
   The tree cache of decompile(): ast_cache[get_codeobject_id(code)], keyed by the ADDRESS of the code object.
   For every history of decompile() calls and releases of code objects, and every behaviour of the allocator (a new object
   never gets the address of a live one - nothing more is assumed), each call returns the tree of the object that was passed
   in.  `pins_codeobjects` is read off pony/utils/utils.py on every run (Gen/C03CacheKey.v): the theorem only type-checks
   while get_codeobject_id keeps every code object it has seen alive.  Without the pin the statement is false
   (Proofs/C03CacheProofs.v, cache_unpinned_refuted: build a query, drop it, build another one at the same address). *)
Theorem C03_cache_own_tree : forall f ops l, crun pins_codeobjects f cinit ops = Some l -> l = cexpected f ops.
Proof. exact (fun f ops l => cache_pinned f ops cinit l (inv_init f)). Qed.
Print Assumptions C03_cache_own_tree.

Example C03_cache_nonvacuous :
  crun pins_codeobjects (fun c => c + 10) cinit [CDecompile (mkObj 7 1); CDrop (mkObj 7 1); CDecompile (mkObj 8 2); CDecompile (mkObj 7 1)]
  = Some [11; 12; 11].
Proof. reflexivity. Qed.
