(* C03 - Decompiling a generator or lambda preserves its meaning.
   Property theorems only: each is closed by `exact <lemma>`; Print Assumptions must report a closed term. *)
From Coq Require Import List Bool Arith.
Import ListNotations.
Require Import PonyV.Model.C03Bexp PonyV.Proofs.C03Checker.

(* The oracle the harness uses to judge every output of the real decompiler: if the truth-table checker accepts a pair
   of expressions (any number of atoms), they have the same VALUE under every assignment of their free names ... *)
Theorem C03_checker_sound : forall e e', equiv_check e e' = true -> forall rho, eval rho e = eval rho e'.
Proof. exact checker_sound. Qed.
Print Assumptions C03_checker_sound.

(* ... resp. the same TRUTH VALUE (what a generator's `if` observes) ... *)
Theorem C03_checker_truth_sound : forall e e', equiv_check_truth e e' = true -> forall rho, truthy (eval rho e) = truthy (eval rho e').
Proof. exact checker_truth_sound. Qed.
Print Assumptions C03_checker_truth_sound.

(* ... and a rejection is never a false alarm: it comes with an assignment on which the two expressions differ. *)
Theorem C03_checker_complete : forall e e', equiv_check e e' = false -> exists rho, eval rho e <> eval rho e'.
Proof. exact checker_complete. Qed.
Print Assumptions C03_checker_complete.

Theorem C03_checker_truth_complete : forall e e', equiv_check_truth e e' = false -> exists rho, truthy (eval rho e) <> truthy (eval rho e').
Proof. exact checker_truth_complete. Qed.
Print Assumptions C03_checker_truth_complete.
