(* C32 - Objects from a finished session are read-only snapshots.
   Property theorems only: each is closed by `exact <lemma>`; Print Assumptions must report a closed term.
   guard_table (Gen/Guards.v) is regenerated from /repo's pony/orm/core.py on every run. *)
Require Import PonyV.Base.PyBase PonyV.Model.C32Guard PonyV.Model.C32Close PonyV.Gen.Guards PonyV.Proofs.C32Proofs.

(* For every operation of the table, every path the source allows, and every dead-session situation (strict or not,
   object deleted or not, attempt made outside any session or inside a new one): unless the (operation, path) pair is one
   of the recorded findings, nothing is written, a path that reaches session state or the database ends in the
   session-is-over error (object-was-deleted for a deleted object), and a path that does not is a pure read. *)
Theorem C32_guarded_except_known : forall o ps p st ow,
  In (o, ps) guard_table -> In p ps -> known_bad o p = false -> In ow (run st p) ->
  snd ow = false /\
  (touches_session p = true -> refused st (fst ow)) /\
  (touches_session p = false -> harmless st (fst ow)).
Proof. exact guarded_except_known. Qed.
Print Assumptions C32_guarded_except_known.

(* The mutators and loaders proper (Attribute.__set__/load, Set.load, SetInstance.add/remove/clear/create/load/+=/-=,
   Entity.delete/set/load/_load_/_attr_changed_): the result is the session-is-over error and nothing is written,
   in every state, on every path. *)
Theorem C32_guarded : forall o ps p st,
  In (o, ps) guard_table -> strictly_guarded o = true -> In p ps -> run st p = [(OSessionOver, false)].
Proof. exact mutators_refuse. Qed.
Print Assumptions C32_guarded.

Theorem C32_guarded_nonvacuous : forall o, strictly_guarded o = true -> exists ps, In (o, ps) guard_table /\ ps <> [].
Proof. exact mutators_present. Qed.
Print Assumptions C32_guarded_nonvacuous.

(* SetInstance.is_empty, SetInstance.create and Entity.flush (given the guard by /repo 743d82e): every path, every state:
   nothing is written; a path that needs the session or the database is refused with the session-is-over error; the other
   paths (is_empty answered from loaded data, flush of an object without unsaved changes) are pure. *)
Theorem C32_guarded_repaired : forall o ps p st ow,
  In (o, ps) guard_table -> repaired o = true -> In p ps -> In ow (run st p) ->
  snd ow = false /\
  (touches_session p = true -> refused st (fst ow)) /\
  (touches_session p = false -> harmless st (fst ow)).
Proof. exact repaired_guarded. Qed.
Print Assumptions C32_guarded_repaired.

Theorem C32_guarded_repaired_nonvacuous : forall o, repaired o = true -> exists ps, In (o, ps) guard_table /\ ps <> [].
Proof. exact repaired_present. Qed.
Print Assumptions C32_guarded_repaired_nonvacuous.

(* SessionCache.close, non-strict (or a session that never connected): loaded values stay readable *)
Theorem C32_readable : forall connected o l a v,
  o_vals o = Some l -> lookup a l = Some (AScalar v) ->
  read (close_obj false connected o) a = RValue (AScalar v).
Proof. exact close_keeps_scalar. Qed.
Print Assumptions C32_readable.

Theorem C32_readable_collection : forall connected o l a items,
  o_vals o = Some l -> lookup a l = Some (AColl items true) ->
  read (close_obj false connected o) a = RValue (AColl items true).
Proof. exact close_keeps_full_collection. Qed.
Print Assumptions C32_readable_collection.

(* ... what was not loaded is refused, and after a strict session everything is *)
Theorem C32_unloaded_refused : forall strict o l a,
  o_vals o = Some l -> lookup a l = None -> read (close_obj strict true o) a = RSessionOver.
Proof. exact close_unloaded_refused. Qed.
Print Assumptions C32_unloaded_refused.

Theorem C32_strict_unreadable : forall o a, read (close_obj true true o) a = RSessionOver.
Proof. exact close_strict_unreadable. Qed.
Print Assumptions C32_strict_unreadable.

Example C32_nonvacuous :
  read (close_obj false true (mkobj (Some [(0%nat, AScalar 7); (1%nat, AColl [1; 2] false); (2%nat, AColl [3] true)]) true true)) 2
  = RValue (AColl [3] true).
Proof. vm_compute. reflexivity. Qed.
