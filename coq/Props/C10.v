(* C10 - Lookups and queries inside a session see the session's own unflushed changes.
   Property theorems only: each is closed by `exact <lemma>`; Print Assumptions must report a closed term.

   Proved: read-your-own-write for every scalar attribute (int / str, unique or not), for every schema and every history of the
   session model that reached no dirty site; and, for Stage 1 schemas WITHOUT Required references, that a loaded scalar attribute the program
   did not write in this transaction reads as the value in the object's row of the transaction's database (C10_scalar_read_except_known, from
   the coherence invariant of Proofs/SessionCoh.v).  The general statement (every read - references, collections, counts, E[pk], get, select -
   answers from the logical state of the session) is NOT proved: it is checked on generated histories against the reference state of
   tools/session_spec.py (on the implementation) and refuted for five known defects (Findings/C10.v).  Stage 1 schema space. *)
Require Import PonyV.Model.SessionBase PonyV.Model.SessionDb PonyV.Model.Session.
Require Import PonyV.Proofs.SessionIdx PonyV.Proofs.SessionTxn PonyV.Proofs.SessionCoh PonyV.Proofs.SessionRefs.

(* after obj.a = z succeeded, obj.a reads z - whatever happened before (loaded or new object, flushed or not) *)
Theorem C10_read_after_set_except_known : forall sch, wf_schema sch = true -> forall ops h a z o at_ s',
  s_dirty (run sch ops) = O -> hget (run sch ops) h = Some o -> get_attr sch (obj_ent (run sch ops) o) a = Some at_ ->
  a_kind at_ = KInt -> a_uniq at_ = false -> set_op sch (run sch ops) h a (AInt z) = (s', ROk) ->
  snd (read_op sch s' h a) = RVal (VInt z).
Proof. exact read_after_set_all_histories. Qed.
Print Assumptions C10_read_after_set_except_known.

(* ... and for every scalar attribute - int or str, unique or not, any accepted value (None included): what a successful obj.a = v stored
   (the validated value) is what obj.a reads, in every clean history *)
Theorem C10_read_after_set_scalar_except_known : forall sch, wf_schema sch = true -> forall ops h a v o at_ s',
  s_dirty (run sch ops) = O -> hget (run sch ops) h = Some o -> get_attr sch (obj_ent (run sch ops) o) a = Some at_ ->
  is_scalar_kind (a_kind at_) = true -> set_op sch (run sch ops) h a v = (s', ROk) ->
  exists nv, validate (run sch ops) at_ (Some v) = VOk nv /\ snd (read_op sch s' h a) = RVal nv.
Proof. exact read_after_set_scalar_all_histories. Qed.
Print Assumptions C10_read_after_set_scalar_except_known.

(* the same from any state whose objects have one value slot per attribute *)
Theorem C10_read_after_set_step : forall sch s h a z o at_ s',
  Inv_shape sch s -> hget s h = Some o -> get_attr sch (obj_ent s o) a = Some at_ -> a_kind at_ = KInt -> a_uniq at_ = false ->
  set_op sch s h a (AInt z) = (s', ROk) -> snd (read_op sch s' h a) = RVal (VInt z).
Proof. exact read_after_set_plain. Qed.
Print Assumptions C10_read_after_set_step.

(* Stage 1 schemas without Required references, clean histories: a loaded scalar attribute of a saved or loaded object reads as its cached value;
   unless the program wrote it in this transaction (then C10_read_after_set_scalar_except_known says what it reads) that value is the one in the
   object's row of the transaction's database - the row exists unless the object is only known by its key (a seed) -, and the remembered
   database value (dbvals) always is the row's value *)
Theorem C10_scalar_read_except_known : forall sch, no_req_refs sch = true -> wf_schema sch = true -> forall ops h a o ob z v,
  s_dirty (run sch ops) = O -> hget (run sch ops) h = Some o -> get_obj (run sch ops) o = Some ob ->
  status_eqb (o_st ob) SCreated = false -> is_gone (o_st ob) = false -> o_pk ob = Some z ->
  scalar sch (o_ent ob) a = true -> oval ob a = Some v -> notref v = true ->
  snd (read_op sch (run sch ops) h a) = RVal v /\
  (forall r, In r (tab (s_db (run sch ops)) (o_ent ob)) -> r_pk r = z ->
      (owbit ob a = false -> col r a = v) /\ (forall w, odbval ob a = Some w -> notref w = true -> col r a = w)) /\
  (o_seed ob = false -> exists r, In r (tab (s_db (run sch ops)) (o_ent ob)) /\ r_pk r = z).
Proof. exact scalar_read_is_database_value. Qed.
Print Assumptions C10_scalar_read_except_known.

(* PARTIAL - collection reads.  Proved: a collection that is fully loaded is read from the cache alone (no query, no flush) and the answer is its item
   list.  NOT proved (Proofs/SessionRefs.v, loaded_collections_complete_statement): that a fully loaded collection holds every row that refers to its
   owner, hence that the answer is the logical content (database rows + added - removed). *)
Theorem C10_collection_read_partial : forall sch s h a o at_ t rv,
  hget s h = Some o -> get_attr sch (obj_ent s o) a = Some at_ -> a_kind at_ = KSet t rv -> is_del (obj_st s o) = false ->
  has_sd s o a = true -> coll_full s o a = true -> copy_assert_fails s o a = false ->
  read_op sch s h a = objs_res s (sd_items (get_sd s o a)).
Proof. exact read_full_collection_from_cache. Qed.
Print Assumptions C10_collection_read_partial.

(* non-vacuity: in a new session an object is fetched, one attribute is written; the other one still reads as the row's value *)
Example C10_scalar_read_nonvacuous :
  let sch := [mkEnt false [mkAttr KInt false true; mkAttr KStr false false]] in
  let ops := [ONew 0 (Some 1%Z) [(0, AInt 5%Z); (1, AStr [97%Z])]; OCommit; ONewSession; OGetPk 0 (AInt 1%Z); OSet 0 0 (AInt 6%Z)]%nat in
  no_req_refs sch = true /\ wf_schema sch = true /\ s_dirty (run sch ops) = O /\ hget (run sch ops) 0%nat = Some 0%nat /\
  option_map (fun ob => (o_st ob, o_pk ob, o_seed ob, oval ob 1%nat, owbit ob 1, owbit ob 0)) (get_obj (run sch ops) 0%nat) =
     Some (SModified, Some 1%Z, false, Some (VStr [97%Z]), false, true) /\
  snd (read_op sch (run sch ops) 0%nat 1%nat) = RVal (VStr [97%Z]) /\ tab (s_db (run sch ops)) 0%nat = [mkRow 1%Z [VInt 5%Z; VStr [97%Z]]].
Proof. vm_compute. repeat split; reflexivity. Qed.

(* non-vacuity: unflushed creations, a moved reference and a deletion are what E[pk], a collection read, count(), get() and select() show *)
Example C10_nonvacuous :
  let sch := [mkEnt false [mkAttr KInt false true; mkAttr (KSet 1 0) false false]; mkEnt true [mkAttr (KRef 0 1) false false; mkAttr KInt false false]] in
  let ops := [ONew 0 (Some 1%Z) [(0, AInt 5%Z)]; ONew 0 (Some 2%Z) []; ONew 1 None [(0, AObj 0); (1, AInt 3%Z)]; ONew 1 None [(0, AObj 0)];
              OSet 3 0 (AObj 1); ORead 0 1; OCount 1 1; OGetBy 0 0 (AInt 5%Z); OSelect 1 1 (AInt 3%Z); ODelete 2; OCount 0 1; OSelectAll 1]%nat in
  wf_schema sch = true /\ s_dirty (run sch ops) = O /\
  skipn 5 (trace sch (init_sess sch) ops) = [RObjs [2]; RInt 1; RObj 0; RObjs [2]; ROk; RInt 0; RObjs [3]]%nat.
Proof. vm_compute. repeat split; reflexivity. Qed.
