(* C10 - Lookups and queries inside a session see the session's own unflushed changes.
   Property theorems only: each is closed by `exact <lemma>`; Print Assumptions must report a closed term.

   Proved: read-your-own-write for every scalar attribute (int / str, unique or not), for every schema and every history of the
   session model that reached no dirty site.  The general statement (every read - references, collections, counts, E[pk], get, select - answers
   from the logical state of the session) is NOT proved: it is checked on generated histories against the reference state of
   tools/session_spec.py (on the implementation) and refuted for five known defects (Findings/C10.v).  Stage 1 schema space. *)
Require Import PonyV.Model.SessionBase PonyV.Model.SessionDb PonyV.Model.Session.
Require Import PonyV.Proofs.SessionIdx PonyV.Proofs.SessionTxn.

(* after obj.a = z succeeded, obj.a reads z - whatever happened before (loaded or new object, flushed or not) *)
Theorem C10_read_after_set_except_known : forall sch, wf_schema sch = true -> forall ops h a z o at_ s',
  s_dirty (run sch ops) = O -> hget (run sch ops) h = Some o -> get_attr sch (obj_ent (run sch ops) o) a = Some at_ ->
  a_kind at_ = KInt -> a_uniq at_ = false -> set_op sch (run sch ops) h a (AInt z) = (s', ROk) ->
  snd (read_op sch s' h a) = RVal (VInt z).
Proof. exact read_after_set_all_histories. Qed.
Print Assumptions C10_read_after_set_except_known.

(* ... and for every scalar attribute - int or str, unique or not, any accepted value (None included): what a successful obj.a = v stored
   (the validated value) is what obj.a reads, in every clean history *)
Theorem C10_read_after_set_scalar_except_known : forall sch, wf_schema sch = true -> forall ops h a v o at_ s',
  s_dirty (run sch ops) = O -> hget (run sch ops) h = Some o -> get_attr sch (obj_ent (run sch ops) o) a = Some at_ ->
  is_scalar_kind (a_kind at_) = true -> set_op sch (run sch ops) h a v = (s', ROk) ->
  exists nv, validate (run sch ops) at_ (Some v) = VOk nv /\ snd (read_op sch s' h a) = RVal nv.
Proof. exact read_after_set_scalar_all_histories. Qed.
Print Assumptions C10_read_after_set_scalar_except_known.

(* the same from any state whose objects have one value slot per attribute *)
Theorem C10_read_after_set_step : forall sch s h a z o at_ s',
  Inv_shape sch s -> hget s h = Some o -> get_attr sch (obj_ent s o) a = Some at_ -> a_kind at_ = KInt -> a_uniq at_ = false ->
  set_op sch s h a (AInt z) = (s', ROk) -> snd (read_op sch s' h a) = RVal (VInt z).
Proof. exact read_after_set_plain. Qed.
Print Assumptions C10_read_after_set_step.

(* non-vacuity: unflushed creations, a moved reference and a deletion are what E[pk], a collection read, count(), get() and select() show *)
Example C10_nonvacuous :
  let sch := [mkEnt false [mkAttr KInt false true; mkAttr (KSet 1 0) false false]; mkEnt true [mkAttr (KRef 0 1) false false; mkAttr KInt false false]] in
  let ops := [ONew 0 (Some 1%Z) [(0, AInt 5%Z)]; ONew 0 (Some 2%Z) []; ONew 1 None [(0, AObj 0); (1, AInt 3%Z)]; ONew 1 None [(0, AObj 0)];
              OSet 3 0 (AObj 1); ORead 0 1; OCount 1 1; OGetBy 0 0 (AInt 5%Z); OSelect 1 1 (AInt 3%Z); ODelete 2; OCount 0 1; OSelectAll 1]%nat in
  wf_schema sch = true /\ s_dirty (run sch ops) = O /\
  skipn 5 (trace sch (init_sess sch) ops) = [RObjs [2]; RInt 1; RObj 0; RObjs [2]; ROk; RInt 0; RObjs [3]]%nat.
Proof. vm_compute. repeat split; reflexivity. Qed.
