(* C11 - One in-memory object per primary key per session; every unique key value maps to the object that holds it.
   Property theorems only: each is closed by `exact <lemma>`; Print Assumptions must report a closed term.

   Scope (Stage 1 of DESIGN Appendix A): entities with a single integer primary key (auto or explicit), required / optional
   int and str attributes, unique attributes, many-to-one / one-to-many relationships; all operations of Model/Session.v
   (create, attribute assignment, Entity.set, delete with cascade, collection add / remove / assign, reads that load rows,
   Entity[pk], get, select, flush, commit, rollback, new session).  The theorems quantify over every well-formed schema and
   every operation list.  `s_dirty s = 0` excludes the histories in which the code (and therefore the model) has reached one
   of the dirty sites listed in Model/Session.v: known defects of the unchanged code (Findings/C11.v) and assertion sites. *)
Require Import PonyV.Model.SessionBase PonyV.Model.SessionDb PonyV.Model.Session PonyV.Proofs.SessionIdx.

(* Inv_idx: an index entry (entity, key slot, value) -> o exists exactly when o is a live object of that entity whose key
   has that value (slot 0 = primary key, slot a+1 = unique attribute a; live = not deleted / cancelled for the primary key,
   not marked_to_delete either for unique attributes). *)
Theorem C11_index_invariant_except_known : forall sch, wf_schema sch = true ->
  forall ops, s_dirty (run sch ops) = O -> Inv_idx sch (run sch ops).
Proof. exact idx_invariant_all_histories. Qed.
Print Assumptions C11_index_invariant_except_known.

(* the inductive step, for every operation from every state: the invariant (or a dirty flag) is kept *)
Theorem C11_step_preserves : forall sch, wf_schema sch = true ->
  forall s op, Pk sch s -> Pk sch (fst (step sch s op)).
Proof. exact Pk_step. Qed.
Print Assumptions C11_step_preserves.

(* functionality of the identity map: two live objects of one entity with one primary key are one object *)
Theorem C11_identity_map_except_known : forall sch, wf_schema sch = true ->
  forall ops o1 o2 ob1 ob2 z,
  s_dirty (run sch ops) = O ->
  get_obj (run sch ops) o1 = Some ob1 -> get_obj (run sch ops) o2 = Some ob2 ->
  o_ent ob1 = o_ent ob2 -> o_pk ob1 = Some z -> o_pk ob2 = Some z ->
  is_gone (o_st ob1) = false -> is_gone (o_st ob2) = false -> o1 = o2.
Proof. exact identity_map_functional. Qed.
Print Assumptions C11_identity_map_except_known.

(* non-vacuity: a history with two objects, a key change, a flush and a reload in a new session is clean and indexed *)
Example C11_nonvacuous :
  let sch := [mkEnt false [mkAttr KInt true true; mkAttr KInt false false]] in
  let s := run sch [ONew 0 (Some 1%Z) [(0, AInt 7%Z)]; ONew 0 (Some 2%Z) [(0, AInt 8%Z)]; OSet 0 0 (AInt 9%Z); OCommit;
                    ONewSession; OGetBy 0 0 (AInt 9%Z); OSet 0 0 (AInt 7%Z)]%nat in
  wf_schema sch = true /\ s_dirty s = O /\ idx_get s 0 1 (VInt 7%Z) = Some 0%nat /\ idx_get s 0 1 (VInt 9%Z) = None.
Proof. vm_compute. repeat split; reflexivity. Qed.
