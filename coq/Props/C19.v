(* C19 - Connections and the SQLite transaction lock are always released.
   Property theorems only, over the executable model Model/C19Txn.v (tied to /repo on every run by the correspondence
   of driver-call traces and end states under injected faults).  WF (Proofs/C19Base.v) is the state invariant; it holds
   in the initial state (Example C19_initial_wf) and an idle state is one with no registered session cache. *)
From Coq Require Import List Bool Arith.
Import ListNotations.
Require Import PonyV.Model.C19Txn PonyV.Proofs.C19Base PonyV.Proofs.C19Proofs2 PonyV.Proofs.C19Proofs3 PonyV.Proofs.C19CrunchNF PonyV.Proofs.C19NoFault.

(* However a session ends: for every session shape, every body (any operations, the body may catch exceptions and go on,
   may commit / roll back in the middle, may raise) and every fault oracle (any set of DB-API calls raising), a session
   started in an idle thread with the lock free terminates (never blocks) and afterwards
     - provider.transaction_lock is free and this thread is not its holder,
     - no cache is registered, no connection is checked out (out = false) and no transaction is open,
     - no protocol violation happened (bad = []: no release of an unheld lock, no double release to the pool, no use of a
       dead connection, no connection overwritten in the pool),
     - a connection that is in the pool has no open driver-level transaction (it was rolled back successfully),
     - every connection ever created is either the pool's connection or has been closed exactly once (AccT),
     - the state is well formed again, so the next session starts from the same premises. *)
Theorem C19_released : forall oracle sh body s, WF s -> k_reg s = false -> lock s = false ->
  exists r s', run_session oracle sh body s = (r, s') /\ r <> Blocked /\
    WF s' /\ k_reg s' = false /\ lock s' = false /\ mine s' = false /\ out s' = false /\ k_has s' = false /\
    k_intxn s' = false /\ bad s' = [] /\ (p_has s' = true -> p_txn s' = false) /\
    AccT (p_has s') (p_id s') (next s') (closed s') /\
    Suffix sh false (trace s) (trace s').
Proof. exact released_lemma. Qed.
Print Assumptions C19_released.

(* Along every schedule of any number of threads (each with its own fault oracle), starting from the initial state:
   the lock is held if and only if exactly one session cache is in a transaction, and that cache is immediate. *)
Theorem C19_lock_inv : forall orc sh schedule,
  let g := grun orc (g_init sh) schedule in
  fst g = true <-> exists i, k_intxn (snd g i) = true /\ k_imm (snd g i) = true /\ forall j, k_intxn (snd g j) = true -> j = i.
Proof. intros orc sh schedule. apply ginv_lock_iff. apply grun_inv. apply GInv_init. Qed.
Print Assumptions C19_lock_inv.

(* A following session can acquire: any number of consecutive sessions of a thread, none blocks, each ends idle, lock free. *)
Theorem C19_progress : forall oracle sessions s, WF s -> k_reg s = false -> lock s = false ->
  exists r s', run_sessions oracle sessions s = (r, s') /\ r <> Blocked /\ WF s' /\ k_reg s' = false /\ lock s' = false.
Proof. exact progress_lemma. Qed.
Print Assumptions C19_progress.

(* ... and in any reachable state of several threads: when the lock holder's session ends (with or without an exception,
   whatever faults happen on the way out) the lock is free, so that a thread waiting in acquire_lock can go on. *)
Theorem C19_progress_threads : forall orc sh schedule i exc sh',
  let g := grun orc (g_init sh) schedule in
  mine (snd g i) = true ->
  fst (gstep orc g (i, AExit exc sh')) = false /\ k_reg (snd (gstep orc g (i, AExit exc sh')) i) = false.
Proof. intros orc sh schedule i exc sh' g. apply exit_frees. apply grun_inv. apply GInv_init. Qed.
Print Assumptions C19_progress_threads.

(* Database.disconnect() between sessions (whether or not close() raises): afterwards the pool is empty, the lock is free and every
   connection this thread ever created has been closed exactly once (AccT false: all ids are in the duplicate-free `closed` list);
   the state is well formed and idle, so every theorem above applies to the sessions that follow. *)
Theorem C19_disconnect : forall oracle s, WF s -> k_reg s = false -> lock s = false ->
  exists r s', db_disconnect oracle s = (r, s') /\ r <> Blocked /\ WF s' /\ k_reg s' = false /\ p_has s' = false /\ lock s' = false /\
    AccT false (p_id s') (next s') (closed s').
Proof. exact disconnect_lemma. Qed.
Print Assumptions C19_disconnect.

(* Later sessions never fail because of an earlier session: after ANY sequence of sessions with ANY faults, a session in which
   no DB-API call fails any more (oracle false from the current call index on) and whose body does not itself raise
   (benign: every operation except `raise`) succeeds - result Ok, lock free, idle again.  (Holds since /repo 54964b5; before it,
   a failed connection initialisation poisoned the pool: see known_findings/C19.json, "fixed".) *)
Theorem C19_following_session_succeeds : forall oracle sessions s sh body,
  WF s -> k_reg s = false -> lock s = false ->
  forallb (fun oc => benign (fst oc)) body = true ->
  exists r1 s1, run_sessions oracle sessions s = (r1, s1) /\
    ((forall n, ncall s1 <= n -> oracle n = false) ->
     exists s2, run_session oracle sh body s1 = (Ok, s2) /\ lock s2 = false /\ k_reg s2 = false).
Proof. exact following_session_lemma. Qed.
Print Assumptions C19_following_session_succeeds.

(* the premises are satisfiable: the initial state is well formed, idle, lock free *)
Example C19_initial_wf : forall sh, WF (set_sess sh st_empty) /\ k_reg (set_sess sh st_empty) = false /\ lock (set_sess sh st_empty) = false.
Proof. intros sh. split; [apply WF_st_empty | split; reflexivity]. Qed.

(* non-vacuity of the last theorem: the connection initialisation fails (call 1), later nothing fails: the next session works *)
Example C19_following_nonvacuous :
  let o := faults_oracle [1] in
  let s1 := snd (run_sessions o [(ShImm, [(ORawWrite, false)])] st_empty) in
  ncall s1 = 3 /\ p_has s1 = false /\ closed s1 = [0] /\ fst (run_session o ShSer [(OForUpd, false); (ONew, false); (OLink, false)] s1) = Ok.
Proof. vm_compute. repeat split. Qed.

(* non-vacuity: an immediate session whose COMMIT (call 7) and the following rollback (call 8) both fail ends with the
   connection closed once, the lock free, CommitException *)
Example C19_nonvacuous :
  let rs := run_session (faults_oracle [7; 8]) ShImm [(ONew, false); (OFlush, false)] st_empty in
  fst rs = Err ECommit /\ lock (snd rs) = false /\ p_has (snd rs) = false /\ closed (snd rs) = [0] /\ length (trace (snd rs)) = 10.
Proof. vm_compute. repeat split. Qed.
