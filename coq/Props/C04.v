(* C04 - Outer-scope expressions inside a query are evaluated exactly as Python would: regenerating source text from an
   expression tree and compiling it again never changes its meaning.
   Property theorems only: each is closed by `exact <lemma>`; Print Assumptions must report a closed term.

   Model: Model/C04Expr.v (trees, tokens, the printer `print st e`, Python's grammar levels prec/req and the rule `ref_needs`
   derived from them), Model/C04Parse.v (Python's expression grammar as a parser over the tokens; validated against CPython on
   every run), Gen/Priority.v (the parenthesisation rule `pony_needs` and the f-string / index-tuple flags of
   pony/orm/asttranslation.py, regenerated from the source on every run), Model/C04FStr.v (f-string bodies, character level). *)
From Coq Require Import ZArith List Bool Arith.
Import ListNotations.
Require Import PonyV.Model.C04Expr PonyV.Model.C04Parse PonyV.Model.C04FStr PonyV.Gen.Priority
               PonyV.Proofs.C04Table PonyV.Proofs.C04Parse PonyV.Proofs.C04Mono PonyV.Proofs.C04FStrProofs PonyV.Proofs.C04Pony.
Open Scope nat_scope.

(* (1) Finite table, no exception: wherever Python's grammar requires parentheses around a child (parent kind, position class,
   child kind), the rule coded in PythonTranslator (@priority decorators, `>=`, receiver_src) produces them. *)
Theorem C04_table : forall p i c, ref_needs p i c = true -> pony_needs p i c = true.
Proof. exact table_covers. Qed.
Print Assumptions C04_table.

(* the code never puts parentheses around an item (starred argument, keyword, slice, replacement field) where one may stand *)
Theorem C04_items_never_wrapped : forall p i c, allowed p i c = true -> expr_kindb c = false -> pony_needs p i c = false.
Proof. exact items_never_wrapped. Qed.
Print Assumptions C04_items_never_wrapped.

(* (2) Unbounded trees, any parenthesisation style: if the style parenthesises at least where `ref_needs` asks, never
   parenthesises an item, drops no format spec and no index-tuple comma that occurs (`good st e`), then Python's grammar (the model
   parser) reads the printed tokens back as exactly the tree e, whatever its depth. *)
Theorem C04_print_parse : forall st e,
  good st e = true -> expr_kindb (ekind e) = true ->
  exists n, forall f, n <= f -> parse_top f (print st e) = Some e.
Proof. exact print_parse_roundtrip. Qed.
Print Assumptions C04_print_parse.

(* fuel only decides whether the parser answers, never what: with whatever fuel, it never reads the printed tokens as another tree *)
Theorem C04_print_parse_unique : forall st e,
  good st e = true -> expr_kindb (ekind e) = true ->
  forall f e', parse_top f (print st e) = Some e' -> e' = e.
Proof. exact roundtrip_unique. Qed.
Print Assumptions C04_print_parse_unique.

(* the same inside a larger input: at any level the expression fits, followed by anything that cannot continue it *)
Theorem C04_print_parse_prefix : forall st e lvl rest,
  good st e = true -> expr_kindb (ekind e) = true ->
  lvl <= prec (ekind e) -> guard (Nat.min lvl (rmin st e)) rest = true -> lvl <= 13 ->
  exists n, forall f, n <= f -> parse_e f lvl (print st e ++ rest) = Some (e, rest).
Proof. exact print_parse_prefix. Qed.
Print Assumptions C04_print_parse_prefix.

(* the reference rule is sufficient: minimal parentheses, and parentheses around every expression child, both read back *)
Theorem C04_reference_rule_sufficient : forall e, wf e = true -> expr_kindb (ekind e) = true ->
  exists n, forall f, n <= f -> parse_top f (print ref_style e) = Some e.
Proof. exact ref_roundtrip. Qed.
Print Assumptions C04_reference_rule_sufficient.

Theorem C04_redundant_parentheses_harmless : forall e, wf e = true -> expr_kindb (ekind e) = true ->
  exists n, forall f, n <= f -> parse_top f (print full_style e) = Some e.
Proof. exact full_roundtrip. Qed.
Print Assumptions C04_redundant_parentheses_harmless.

(* (3) THE CODE'S OWN STYLE (regenerated from the source on every run): every well-formed expression tree, of any depth, is read
   back as itself from the tokens ast2src prints - no list of exceptions.  (wf: the arities and positions of Python's abstract
   grammar for the 36 modelled node kinds; it excludes only negative number constants, whose reparse is a UnaryOp node.) *)
Theorem C04_ast2src : forall e, wf e = true -> expr_kindb (ekind e) = true ->
  exists n, forall f, n <= f -> parse_top f (print pony_style e) = Some e.
Proof. exact pony_roundtrip. Qed.
Print Assumptions C04_ast2src.

Theorem C04_ast2src_unique : forall e, wf e = true -> expr_kindb (ekind e) = true ->
  forall f e', parse_top f (print pony_style e) = Some e' -> e' = e.
Proof. exact pony_unique. Qed.
Print Assumptions C04_ast2src_unique.

(* the same without relying on the current value of the f-string / index-tuple flags (what would remain if they regressed) *)
Theorem C04_ast2src_flags : forall e,
  wf e = true -> (pony_keep_spec || spec_free e) = true -> (pony_short_idx || long_idx e) = true ->
  expr_kindb (ekind e) = true ->
  exists n, forall f, n <= f -> parse_top f (print pony_style e) = Some e.
Proof. exact pony_roundtrip_flags. Qed.
Print Assumptions C04_ast2src_flags.

(* every node kind of the model can be printed (no method reads a field the node does not have) *)
Theorem C04_every_kind_printable : forall k, pony_kind_ok k = true.
Proof. exact pony_kinds_all. Qed.
Print Assumptions C04_every_kind_printable.

(* (4) f-string bodies, character level: literal braces, conversions and format specs survive print + read;
   first for the faithful printer, then for the flags the code has *)
Theorem C04_fstring : forall v, normal_f false v = true -> parse_f (print_f true true v) = Some v.
Proof. exact fstring_roundtrip. Qed.
Print Assumptions C04_fstring.

Theorem C04_fstring_ast2src : forall v, normal_f false v = true -> parse_f (print_f pony_escape_braces pony_keep_spec v) = Some v.
Proof. exact pony_fstring. Qed.
Print Assumptions C04_fstring_ast2src.

(* non-vacuity: a deep tree with eleven operator levels, receivers / conditional / lambda that need parentheses, a slice, a
   one-element index tuple, a starred argument, a keyword and an f-string with braces, conversion and spec is well-formed and read back *)
Example C04_nonvacuous : wf sample = true /\ parse_auto (print pony_style sample) = Some sample.
Proof. exact sample_ok. Qed.
Print Assumptions C04_nonvacuous.

Example C04_table_nonvacuous :
  ref_needs KSub 1 KAdd = true /\ pony_needs KSub 1 KAdd = true /\
  ref_needs KPow 0 KPow = true /\ pony_needs KPow 0 KPow = true /\
  ref_needs KPow 0 KUSub = true /\ ref_needs KPow 0 KNegConst = true /\
  ref_needs KAttribute 0 KAdd = true /\ pony_needs KAttribute 0 KAdd = true /\
  ref_needs KAdd 1 KIfExp = true /\ ref_needs KCall 0 KLambda = true /\ ref_needs KStarElt 0 KOr = true /\
  ref_needs KAdd 0 KMult = false /\ ref_needs KCall 1 KLambda = false /\
  length (filter (fun t => let '(p, i, c) := t in ref_needs p i c)
            (flat_map (fun p => flat_map (fun i => map (fun c => (p, i, c)) all_kinds) all_pos) all_kinds)) = 436.
Proof. exact table_nonvacuous. Qed.
Print Assumptions C04_table_nonvacuous.

(* ============ (5) which parts of a query are evaluated in the caller's scope: PreTranslator, create_extractors, extract_vars
   (Model/C04Ext.v: the marking as coded, hand-written and tied node for node to the real PreTranslator on every run;
    Model/C04Eval.v: an evaluation semantics over integers, strings and tuples for names, literals, tuple displays, + - *, unary -,
    not, and/or, comparison chains, conditional expressions, indexing) *)
Require Import PonyV.Model.C04Ext PonyV.Model.C04Eval PonyV.Proofs.C04ExtProofs PonyV.Proofs.C04EvalProofs.
Open Scope nat_scope.

(* `mwf`: the shape the marking relies on (names and constants have no children, a field has one); every tree that is well-formed for
   the printer is (C04_wf_mwf); dict / set displays and nested generator expressions (subqueries) are admitted as well *)
Theorem C04_wf_mwf : forall e, wf e = true -> mwf e = true.
Proof. exact wf_mwf. Qed.
Print Assumptions C04_wf_mwf.

(* soundness of the marking: every external of a query body - in the context that holds where it stands: the query
   variables ctx plus the parameters of enclosing lambdas and the targets of enclosing subquery for-clauses - mentions none of those names and contains no lambda, so that evaluating
   it in the caller's scope is meaningful.  (No side condition since 5e60a83: a list display / starred argument is external only if
   all its items are.) *)
Theorem C04_marking_sound : forall fclass ctx e p c' s,
  mwf e = true ->
  In p (externals fclass ctx e) -> sub_ctx ctx e p = Some (c', s) ->
  mentions c' s = false /\ lambda_free s = true.
Proof. exact externals_sound. Qed.
Print Assumptions C04_marking_sound.

(* maximality as far as the code intends it: an expression that mentions no name of the context and contains nothing the marking
   refuses by design (lambda, special function or raw_sql call, empty tuple / f-string / format spec) is external as a whole; unless
   it is constant or of a kind that is passed piecewise (tuple, list, slice, starred, keyword) it is THE parameter *)
Theorem C04_marking_maximal : forall fclass ctx e,
  markable fclass e = true -> mentions ctx e = false ->
  a_cst (mark fclass ctx e) = false -> nonexternalizable (match e with Node l _ => l end) = false ->
  In [] (externals fclass ctx e).
Proof. exact externals_maximal. Qed.
Print Assumptions C04_marking_maximal.

(* THE FIRST SENTENCE OF THE PROPERTY on the fragment of Model/C04Eval.v: what the extractor of an external s computes - Python's
   eval of the text ast2src prints for s, in the caller's scope - is the value s has in place, under any binding of the query
   variables and lambda parameters c' that agrees with the caller's scope on all other names *)
Theorem C04_bound_value : forall fclass ctx e p c' s rho_caller rho_place,
  mwf e = true ->
  In p (externals fclass ctx e) -> sub_ctx ctx e p = Some (c', s) -> wf s = true -> expr_kindb (ekind s) = true ->
  (forall x, mem x c' = false -> rho_caller x = rho_place x) ->
  exists n, forall f, n <= f -> eval_tokens f (print pony_style s) rho_caller = ceval rho_place s.
Proof. exact bound_value. Qed.
Print Assumptions C04_bound_value.

(* create_extractors keeps one extractor per source text: two externals with the same tokens are the same tree *)
Theorem C04_same_text_same_tree : forall s1 s2,
  wf s1 = true -> wf s2 = true -> expr_kindb (ekind s1) = true -> expr_kindb (ekind s2) = true ->
  print pony_style s1 = print pony_style s2 -> s1 = s2.
Proof. exact same_text_same_tree. Qed.
Print Assumptions C04_same_text_same_tree.

(* extract_vars: the keys (filter_num, src, code_key) of one call are pairwise distinct; the same text under another filter number
   is another parameter (evaluated again, in the scope of that filter call) *)
Theorem C04_varkeys_distinct : forall fn ck srcs, NoDup (varkeys fn ck srcs).
Proof. exact varkeys_nodup. Qed.
Print Assumptions C04_varkeys_distinct.

Theorem C04_varkeys_filters_disjoint : forall fn1 fn2 ck srcs1 srcs2 k, fn1 <> fn2 ->
  In k (varkeys fn1 ck srcs1) -> In k (varkeys fn2 ck srcs2) -> False.
Proof. exact varkeys_filters_disjoint. Qed.
Print Assumptions C04_varkeys_filters_disjoint.

(* a subquery: `p.x in (s.y for s in S if s.z == a + 1 and s.w == p.x)`: externals S and a + 1, the latter in the context [s; p] *)
Example C04_subquery_nonvacuous :
  externals (fun _ => FPlain) [[112]%Z] demo_subquery = [[1; 0]; [1; 1; 0; 1]] /\
  sub_ctx [[112]%Z] demo_subquery [1; 1; 0; 1] = Some ([[115]%Z; [112]%Z], Node (LOp KAdd) [nmz 97; Node (LConst [49]%Z) []]) /\
  mwf demo_subquery = true /\ wf demo_subquery = false.
Proof. exact demo_subquery_ok. Qed.
Print Assumptions C04_subquery_nonvacuous.

(* non-vacuity: `p.x == (a - 1) * 2 + b` with a = 2, b = 0 in the caller's scope: one external, (a - 1) * 2 + b, bound as 2;
   `p.n == (n + 'e', (a, 'x'))[b]` with n = 'Jo': one external, bound as 'Joe' *)
Example C04_bound_value_nonvacuous :
  externals (fun _ => FPlain) [[112]%Z] demo_query = [[1]] /\ sub_ctx [[112]%Z] demo_query [1] = Some ([[112]%Z], demo_ext) /\
  mwf demo_query = true /\ wf demo_ext = true /\
  eval_tokens 40 (print pony_style demo_ext) demo_env = Some (VInt 2) /\
  externals (fun _ => FPlain) [[112]%Z] (Node (LCompare [CEq]) [Node (LAttribute [110]%Z) [nmz 112]; demo_str]) = [[1]] /\
  eval_tokens 60 (print pony_style demo_str) demo_env = Some (VStr [74; 111; 101]%Z).
Proof. exact demo_bound. Qed.
Print Assumptions C04_bound_value_nonvacuous.
