(* C04 - Outer-scope expressions inside a query are evaluated exactly as Python would: regenerating source text from an
   expression tree and compiling it again never changes its meaning.
   Property theorems only: each is closed by `exact <lemma>`; Print Assumptions must report a closed term.

   Model: Model/C04Expr.v (trees, tokens, the printer `print st e`, Python's grammar levels prec/req and the rule `ref_needs`
   derived from them), Model/C04Parse.v (Python's expression grammar as a parser over the tokens; validated against CPython on
   every run), Gen/Priority.v (the parenthesisation rule `pony_needs` of pony/orm/asttranslation.py, regenerated from the source
   on every run), Model/C04Known.v (the listed gaps), Model/C04FStr.v (f-string bodies, character level). *)
From Coq Require Import ZArith List Bool Arith.
Import ListNotations.
Require Import PonyV.Model.C04Expr PonyV.Model.C04Parse PonyV.Model.C04Known PonyV.Model.C04FStr PonyV.Gen.Priority
               PonyV.Proofs.C04Table PonyV.Proofs.C04Parse PonyV.Proofs.C04Mono PonyV.Proofs.C04FStrProofs PonyV.Proofs.C04Pony.
Open Scope nat_scope.

(* (1) Finite table: wherever Python's grammar requires parentheses around a child (parent kind, position, child kind), the
   rule coded in PythonTranslator produces them - on every triple outside the explicit list known_bad_list (139 triples). *)
Theorem C04_table_except_known : forall p i c,
  ref_needs p i c = true -> known_bad p i c = false -> pony_needs p i c = true.
Proof. exact table_except_known. Qed.
Print Assumptions C04_table_except_known.

(* the code never puts parentheses around an item (starred argument, keyword, slice, replacement field) *)
Theorem C04_items_never_wrapped : forall p i c, expr_kindb c = false -> pony_needs p i c = false.
Proof. exact items_never_wrapped. Qed.
Print Assumptions C04_items_never_wrapped.

(* (2) Unbounded trees, any parenthesisation style: if the style parenthesises at least where `ref_needs` asks, never
   parenthesises an item and drops no format spec that occurs (`good st e`), then Python's grammar (the model parser) reads
   the printed tokens back as exactly the tree e, whatever its depth. *)
Theorem C04_print_parse : forall st e,
  good st e = true -> expr_kindb (ekind e) = true ->
  exists n, forall f, n <= f -> parse_top f (print st e) = Some e.
Proof. exact print_parse_roundtrip. Qed.
Print Assumptions C04_print_parse.

(* fuel only decides whether the parser answers, never what: with whatever fuel, it never reads the printed tokens as another tree *)
Theorem C04_print_parse_unique : forall st e,
  good st e = true -> expr_kindb (ekind e) = true ->
  forall f e', parse_top f (print st e) = Some e' -> e' = e.
Proof. exact roundtrip_unique. Qed.
Print Assumptions C04_print_parse_unique.

(* the same inside a larger input: at any level the expression fits, followed by anything that cannot continue it *)
Theorem C04_print_parse_prefix : forall st e lvl rest,
  good st e = true -> expr_kindb (ekind e) = true ->
  lvl <= prec (ekind e) -> guard (Nat.min lvl (rmin st e)) rest = true -> lvl <= 13 ->
  exists n, forall f, n <= f -> parse_e f lvl (print st e ++ rest) = Some (e, rest).
Proof. exact print_parse_prefix. Qed.
Print Assumptions C04_print_parse_prefix.

(* the reference rule is sufficient: minimal parentheses, and parentheses around every expression child, both read back *)
Theorem C04_reference_rule_sufficient : forall e, wf e = true -> expr_kindb (ekind e) = true ->
  exists n, forall f, n <= f -> parse_top f (print ref_style e) = Some e.
Proof. exact ref_roundtrip. Qed.
Print Assumptions C04_reference_rule_sufficient.

Theorem C04_redundant_parentheses_harmless : forall e, wf e = true -> expr_kindb (ekind e) = true ->
  exists n, forall f, n <= f -> parse_top f (print full_style e) = Some e.
Proof. exact full_roundtrip. Qed.
Print Assumptions C04_redundant_parentheses_harmless.

(* (3) The code's own style (regenerated from the source): every well-formed tree of any depth that contains none of the
   known triples, no format spec (the code drops them) and no kind the code cannot print is read back as itself. *)
Theorem C04_ast2src_except_known : forall e,
  wf e = true -> avoids_known e = true -> (pony_keep_spec || spec_free e) = true -> kinds_ok pony_kind_ok e = true ->
  expr_kindb (ekind e) = true ->
  exists n, forall f, n <= f -> parse_top f (print pony_style e) = Some e.
Proof. exact pony_roundtrip. Qed.
Print Assumptions C04_ast2src_except_known.

(* (4) f-string bodies, character level: literal braces, conversions and format specs survive print + read *)
Theorem C04_fstring : forall v, normal_f false v = true -> parse_f (print_f true true v) = Some v.
Proof. exact fstring_roundtrip. Qed.
Print Assumptions C04_fstring.

(* the code's flags (no doubling of braces, no spec): faithful on brace-free, spec-free values *)
Theorem C04_fstring_except_known : forall v, normal_f false v = true ->
  (pony_escape_braces = true \/ brace_free v = true) -> (pony_keep_spec = true \/ no_spec v = true) ->
  parse_f (print_f pony_escape_braces pony_keep_spec v) = Some v.
Proof. exact pony_fstring. Qed.
Print Assumptions C04_fstring_except_known.

(* non-vacuity: a deep tree with eleven operator levels, a slice, a starred argument and a keyword satisfies every hypothesis
   of C04_ast2src_except_known and is read back; the table has triples that need parentheses and get them *)
Example C04_nonvacuous :
  wf sample = true /\ avoids_known sample = true /\ spec_free sample = true /\ kinds_ok pony_kind_ok sample = true /\
  parse_auto (print pony_style sample) = Some sample.
Proof. exact sample_ok. Qed.
Print Assumptions C04_nonvacuous.

Example C04_table_nonvacuous :
  ref_needs KSub 1 KAdd = true /\ pony_needs KSub 1 KAdd = true /\ known_bad KSub 1 KAdd = false /\
  ref_needs KPow 0 KUSub = true /\ pony_needs KPow 0 KUSub = true /\
  ref_needs KAttribute 0 KAdd = true /\ pony_needs KAttribute 0 KAdd = false /\ known_bad KAttribute 0 KAdd = true /\
  length known_bad_list = 139.
Proof. exact table_nonvacuous. Qed.
Print Assumptions C04_table_nonvacuous.
