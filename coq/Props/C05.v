(* C05 - Query, SQL and result caches are transparent.
   Property theorems only.  Each cache is a memo table over request histories (Model/C05Memo.v); the statements hold
   for EVERY history (induction on the list of operations).  The translation itself is a Section variable [tr] with
   the read-set hypothesis (trusted about sqltranslation.py, attacked by the search): its result depends on parameter
   values only through the keys it reports in fixed_param_values. *)
Require Import PonyV.Base.PyBase PonyV.Model.C05Memo PonyV.Gen.C05Flags PonyV.Proofs.C05Memo PonyV.Proofs.C05Coded.

(* a memo table whose key determines the computed value answers every history as a cold cache would, whatever
   clears / single-key invalidations are interleaved (string2ast_cache, extractors_cache, ast_cache, SQL cache) *)
Theorem C05_memo_transparent : forall I K V (keqb : K -> K -> bool) (key : I -> K) (compute : I -> V),
  (forall a b, keqb a b = true -> a = b) ->
  (forall i1 i2, key i1 = key i2 -> compute i1 = compute i2) ->
  forall h, run I K V keqb key compute [] h = map (fresh I K V compute) h.
Proof. exact memo_transparent. Qed.
Print Assumptions C05_memo_transparent.

(* Query._get_translator: lookup by (code key, vartypes), comparison of the pinned parameter values, delete + retranslate *)
Theorem C05_translator : forall C VT P VAL A (ceqb : C -> C -> bool) (vteqb : VT -> VT -> bool) (valeqb : VAL -> VAL -> bool)
  (tr : C -> VT -> vars P VAL -> A * fixed P VAL),
  (forall a b, ceqb a b = true -> a = b) -> (forall a b, vteqb a b = true -> a = b) -> (forall a b, valeqb a b = true -> a = b) ->
  read_set C VT P VAL A tr ->
  forall h, map fst (trun C VT P VAL A ceqb vteqb valeqb tr [] h) = map (tfresh C VT P VAL A tr) h.
Proof. exact translator_transparent. Qed.
Print Assumptions C05_translator.

(* the sql cache key of _construct_sql_and_arguments (query key, vartypes, fixed_param_values, options) determines the SQL *)
Theorem C05_sqlkey_sound : forall C VT P VAL A (tr : C -> VT -> vars P VAL -> A * fixed P VAL),
  read_set C VT P VAL A tr -> forall O S (build : A -> O -> S), self_consistent C VT P VAL A tr ->
  forall r1 r2 : sql_req C VT P VAL O,
  sql_key C VT P VAL A tr O r1 = sql_key C VT P VAL A tr O r2 ->
  sql_compute C VT P VAL A tr O S build r1 = sql_compute C VT P VAL A tr O S build r2.
Proof. exact sqlkey_sound. Qed.
Print Assumptions C05_sqlkey_sound.

(* SessionCache.query_results AS CODED (the two flags of the session model are read from pony/orm/core.py on every run,
   Gen/C05Flags.v): every history of fetches, aggregates, modifications, flushes, commits and bulk deletes gets the answers
   of a cold cache; the only exclusion is a raw SQL write (Database.execute / insert), which does not clear query_results.
   (Until repo commit 2af0689 Query._aggregate was a second hole; reverting it makes this proof fail.) *)
Theorem C05_results_except_known : forall DB W Q R (qeqb : Q -> Q -> bool) (exec : DB -> Q -> R) (apply : DB -> W -> DB),
  (forall a b, qeqb a b = true -> a = b) ->
  forall db h, forallb (fun o => negb (is_raw W Q o)) h = true ->
  srun DB W Q R qeqb exec apply raw_clears_in_source aggr_flushes_in_source (mksess DB W Q R db [] []) h
  = cold_run DB W Q R exec apply db [] h.
Proof. exact results_as_coded. Qed.
Print Assumptions C05_results_except_known.

(* the same for any setting of the two flags (raw writes clearing the cache would close the remaining hole) *)
Theorem C05_results_general : forall DB W Q R (qeqb : Q -> Q -> bool) (exec : DB -> Q -> R) (apply : DB -> W -> DB)
  (raw_clears aggr_flushes : bool),
  (forall a b, qeqb a b = true -> a = b) ->
  forall db h,
  (raw_clears = true \/ forallb (fun o => negb (is_raw W Q o)) h = true) ->
  (aggr_flushes = true \/ forallb (fun o => negb (is_aggregate W Q o)) h = true) ->
  srun DB W Q R qeqb exec apply raw_clears aggr_flushes (mksess DB W Q R db [] []) h = cold_run DB W Q R exec apply db [] h.
Proof. exact results_transparent. Qed.
Print Assumptions C05_results_general.

(* non-vacuity: a concrete translation function satisfying the read-set hypothesis (it pins parameter 0, like a string
   slice bound), a history that exercises hit, miss and replacement, and the transparent answers *)
Example C05_nonvacuous :
  let tr := fun (c vt : nat) (v : vars nat Z) => (v 0%nat + Z.of_nat c, [(0%nat, v 0%nat)]) in
  let r := fun c x => mkreq nat nat nat Z c 0%nat (fun _ => x) in
  read_set nat nat nat Z Z tr /\ self_consistent nat nat nat Z Z tr /\
  map snd (trun nat nat nat Z Z Nat.eqb Nat.eqb Z.eqb tr [] [r 1%nat 5; r 1%nat 5; r 1%nat 7; r 2%nat 7; r 1%nat 7])
    = [Miss; Hit; Replaced; Miss; Hit].
Proof.
  cbv zeta. split; [|split; [|reflexivity]].
  - intros c vt v1 v2 H. cbn in *. rewrite (H 0%nat (v1 0%nat)) by (left; reflexivity). reflexivity.
  - intros c vt v p x H. cbn in H. destruct H as [H|[]]. inversion H; subst. reflexivity.
Qed.
