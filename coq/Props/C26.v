(* C26 - Generated schemas are well formed and match the entity model.
   Property theorems only: each is closed by `exact <lemma>`; Print Assumptions must report a closed term.
   Model: Model/C26Schema.v (normalize_name per dialect, default names, schema.tables/schema.names registry,
   Column registration, order_tables_to_create). *)
Require Import PonyV.Base.PyBase PonyV.Model.C26Schema PonyV.Model.C26Create PonyV.Proofs.C26Proofs PonyV.Proofs.C26CreateProofs.
From Coq Require Import Permutation.

(* Every accepted schema (every registration passed the duplicate checks of Table / DBIndex / ForeignKey): the object
   names are pairwise distinct, and each one is within the dialect's max_name_len provided its source is bounded:
   produced by a default-name function (any entity / attribute / column names, any dialect), or explicit and within the
   limit.  The one unbounded source (M2MSeq: '_%d' appended after truncation) is the recorded finding. *)
Theorem C26_names : forall d (srcs : list (bool * option name_src)) r,
  build empty_reg (map (op_of d) srcs) = Some r ->
  NoDup (r_names r) /\
  ((forall b s, In (b, Some s) srcs -> bounded_src d s) -> forall n, In n (r_names r) -> (length n <= max_len d)%nat).
Proof. exact names_distinct_and_bounded. Qed.
Print Assumptions C26_names.

Theorem C26_normalize : forall d s, (length (normalize d s) <= max_len d)%nat.
Proof. exact normalize_len. Qed.
Print Assumptions C26_normalize.

Theorem C26_column_names : forall d a rp c, In c (default_column_names d a rp) -> (length c <= max_len d)%nat.
Proof. exact default_column_names_len. Qed.
Print Assumptions C26_column_names.

Theorem C26_m2m_column_names : forall d e pk c, In c (default_m2m_column_names d e pk) -> (length c <= max_len d)%nat.
Proof. exact default_m2m_column_names_len. Qed.
Print Assumptions C26_m2m_column_names.

(* order_tables_to_create returns a permutation of the tables ... *)
Theorem C26_order : forall l, Permutation (order_tables l) l.
Proof. exact order_tables_perm. Qed.
Print Assumptions C26_order.

(* ... and if the foreign-key graph is acyclic (there is a rank that decreases along every table -> parent edge; parent_tables
   never contains the table itself) every table comes after all of its parents *)
Theorem C26_order_parents_first : forall (rank : nat -> nat) l,
  (forall t, In t l -> forall p, In p (parents t) -> In p (map tid l) /\ (rank p < rank (tid t))%nat) ->
  forall a t b, order_tables l = a ++ t :: b -> forall p, In p (parents t) -> In p (map tid a).
Proof. exact order_tables_parents_first. Qed.
Print Assumptions C26_order_parents_first.

(* one column per mapped attribute column, in attribute order, NOT NULL exactly when the attribute is not nullable, and no
   two columns of a table share a name *)
Theorem C26_columns : forall attrs cols,
  build_columns attrs = Some cols ->
  cols = table_columns attrs /\ NoDup (map fst cols) /\
  length cols = fold_right (fun a n => (length (a_cols a) + n)%nat) 0%nat attrs.
Proof. exact columns_spec. Qed.
Print Assumptions C26_columns.

(* DBSchema.create_tables over a database that already holds ANY subset of the declared objects (an earlier release of the
   model, an index dropped by hand, a crashed first run): if it returns, every declared object of every table exists
   afterwards, nothing that existed is lost and nothing undeclared is created; and it returns unless an object exists under a
   name that differs only by letter case. *)
Theorem C26_create_tables : forall othercase tables db db',
  create_tables othercase tables db = Some db' ->
  incl db db' /\ (forall t o, In t tables -> In o t -> In o db') /\
  (forall o, In o db' -> In o db \/ exists t, In t tables /\ In o t).
Proof. exact create_tables_spec. Qed.
Print Assumptions C26_create_tables.

Theorem C26_create_tables_succeeds : forall othercase tables db,
  (forall t o, In t tables -> In o t -> othercase o = false) -> exists db', create_tables othercase tables db = Some db'.
Proof. exact create_tables_total. Qed.
Print Assumptions C26_create_tables_succeeds.

Open Scope Z_scope.
Example C26_nonvacuous :
  exists r, build empty_reg (map (op_of Oracle) [(true, Some (DefTable [80; 101; 114; 115; 111; 110]));
                                                  (false, Some (DefIndex [80; 69; 82; 83; 79; 78] [[97]; [98]] false true false));
                                                  (false, None)]) = Some r /\
            r_names r = [[85; 78; 81; 95; 80; 69; 82; 83; 79; 78; 95; 95; 65; 95; 66]; [80; 69; 82; 83; 79; 78]].
Proof. eexists. split; vm_compute; reflexivity. Qed.
