(* C22 - Concurrent threads do not interfere through shared process state.
   Models: Model/C22Memo.v (set-only caches), Model/C22Sched.v (translator cache, cross-thread guard table).
   Property theorems only. *)
From Coq Require Import List Bool Arith.
Import ListNotations.
Require Import PonyV.Model.C22Memo PonyV.Model.C22Sched PonyV.Model.C22Key PonyV.Proofs.C22Proofs.

(* Set-only caches (get; on a miss compute and set): if equal keys imply equal computed values, then under EVERY
   schedule (list of client ids, any number of clients, any correct initial cache content) every client that has
   returned holds compute(its own input): no spurious error, never another thread's data. *)
Theorem C22_setonly : forall (I K V : Type) (keqb : K -> K -> bool) (key : I -> K) (compute : I -> V),
  (forall x y, keqb x y = true <-> x = y) ->
  (forall i j, key i = key j -> compute i = compute j) ->
  forall c0 inputs sched t,
  cache_ok I K V key compute c0 ->
  let s := mrun I K V keqb key compute (minit I K V c0 inputs) sched in
  c_pc (m_cl s t) = 2 -> c_res (m_cl s t) = Some (compute (inputs t)).
Proof. exact memo_correct. Qed.
Print Assumptions C22_setonly.

(* Translator cache as coded (get, compare fixed values, pop(key, None), translate, set): under EVERY schedule of any
   number of threads a finished thread holds a translator built for its OWN parameter value; no schedule raises. *)
Theorem C22_translator : forall warm xs sched t,
  let s := trun true (tinit warm xs) sched in
  t_pc (t_thr s t) = 3 -> t_res (t_thr s t) = TGot (xs t).
Proof. exact translator_fixed. Qed.
Print Assumptions C22_translator.

(* The same for both variants of the invalidation step: with the former `del cache[key]` (safe = false) the only other
   outcome was KeyError - never another thread's translator. *)
Theorem C22_translator_own_data : forall safe warm xs sched t,
  let s := trun safe (tinit warm xs) sched in
  t_pc (t_thr s t) = 3 -> t_res (t_thr s t) = TGot (xs t) \/ (safe = false /\ t_res (t_thr s t) = TKeyError).
Proof. exact translator_own_data. Qed.
Print Assumptions C22_translator_own_data.

(* Key soundness of the translator cache as coded: key = (code_key, vartypes, left_join, filters), plus the comparison of the
   recorded fixed_param_values at every lookup.  If the translation reads nothing but those key components and the values of
   the parameters it fixes (read-set hypothesis, the subject of C05), then an entry created by ANY query and accepted by the
   lookup for query i is the translation of i: a thread is never served a translation that differs from its own. *)
Theorem C22_translator_key_sound :
  forall (Code VT Filt Val Tr : Type) (veqb : Val -> Val -> bool), (forall x y, veqb x y = true -> x = y) ->
  forall (translate : qinput Code VT Filt Val -> Tr) (fixed_of : Code * VT * bool * Filt -> list nat),
  (forall i j, qkey _ _ _ _ i = qkey _ _ _ _ j ->
     (forall p, In p (fixed_of (qkey _ _ _ _ i)) -> q_vals _ _ _ _ i p = q_vals _ _ _ _ j p) -> translate i = translate j) ->
  forall e i t, entry_ok Code VT Filt Val Tr translate fixed_of e (qkey _ _ _ _ i) ->
  accept Code VT Filt Val Tr veqb e i = Some t -> t = translate i.
Proof. exact key_sound. Qed.
Print Assumptions C22_translator_key_sound.

(* Cross-thread use of an object of another thread's live session: every operation outside the recorded unguarded
   cases is rejected (TransactionError). *)
Theorem C22_cross_thread_except_known : forall o loaded, unguarded o loaded = false -> guard o loaded = true.
Proof. exact guard_except_known. Qed.
Print Assumptions C22_cross_thread_except_known.

Example C22_nonvacuous_memo :
  let s := mrun nat nat nat Nat.eqb (fun i => i / 2) (fun i => i / 2 * 10) (minit nat nat nat (fun _ => None) (fun t => t)) [0; 1; 1; 0; 2; 3; 2; 3] in
  map (fun t => c_res (m_cl s t)) [0; 1; 2; 3] = [Some 0; Some 0; Some 10; Some 10].
Proof. vm_compute. reflexivity. Qed.
Example C22_nonvacuous_translator :
  toutcome true (Some 0) [1; 2] [0; 0; 0; 1; 1; 1] = ([TGot 1; TGot 2], [(0, DGet); (0, DDel); (0, DSet); (1, DGet); (1, DDel); (1, DSet)], Some 2).
Proof. vm_compute. reflexivity. Qed.
(* the schedule of the repaired race: both threads find the stale entry, both invalidate it, both translate and set *)
Example C22_nonvacuous_race :
  toutcome true (Some 0) [1; 2] [0; 1; 0; 1; 0; 1]
  = ([TGot 1; TGot 2], [(0, DGet); (1, DGet); (0, DDel); (1, DDel); (0, DSet); (1, DSet)], Some 2).
Proof. vm_compute. reflexivity. Qed.
